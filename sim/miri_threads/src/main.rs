//! C19 layer (d): real preemptive threads over SHARED parser objects, under Miri's seeded
//! scheduler (data races, uninitialised reads and other undefined behaviour are reported with
//! the seed that produced them). Two threads share one Interpreter and one DataParser; each
//! loads its own data and steps its own program on a private machine; the results must equal
//! the ones obtained sequentially on fresh objects.
use emulator_8086_lib::{DataParser, Interpreter, InterpreterContext, State, VM};
use std::sync::Arc;

const PROG_A: [&str; 3] = ["mov ax, 5", "push ax", "mov byte [bx], 9"];
const PROG_B: [&str; 3] = ["mov dx, 65535", "inc dx", "stc"];
const DATA_A: [&str; 1] = ["dw [513, 2]"];
const DATA_B: [&str; 1] = ["db \"hi\""];

type Outcome = (Vec<String>, [u16; 14], Vec<(usize, u8)>);

fn run(interp: &Interpreter, dp: &DataParser, data: &[&str], prog: &[&str], poison: bool) -> Outcome {
    let mut vm = VM::new();
    let mut ctr = 0usize;
    for d in data {
        dp.parse(&mut vm, &mut ctr, d).expect("data line");
    }
    let mut ctx = InterpreterContext::default();
    let mut states = Vec::new();
    for (i, line) in prog.iter().enumerate() {
        if poison && i == 1 {
            // an invalid line on a scratch machine through the same shared objects
            let mut scratch = VM::new();
            let mut c2 = InterpreterContext::default();
            assert!(interp.parse(0, &mut scratch, &mut c2, "mov ax,, 1").is_err());
            let mut k = 0usize;
            assert!(dp.parse(&mut scratch, &mut k, "db 300").is_err());
        }
        let s = interp.parse(i, &mut vm, &mut ctx, line).expect("program line");
        states.push(match s {
            State::NEXT => "next".to_owned(),
            State::HALT => "halt".to_owned(),
            State::PRINT => "print".to_owned(),
            State::REPEAT => "repeat".to_owned(),
            State::JMP(n) => format!("jmp {}", n),
            State::INT(n) => format!("int {}", n),
        });
        std::thread::yield_now();
    }
    let a = &vm.arch;
    let regs = [a.flag, a.ax, a.bx, a.cx, a.dx, a.sp, a.bp, a.si, a.di, a.ip, a.cs, a.ds, a.ss, a.es];
    // (a scan of the whole 1 MiB costs minutes under Miri: the places these programs can touch)
    let mut mem: Vec<(usize, u8)> = Vec::new();
    for i in (0..64).chain(0xFFFF0..0x100000) {
        if vm.mem[i] != 0 {
            mem.push((i, vm.mem[i]));
        }
    }
    (states, regs, mem)
}

fn main() {
    // shared objects (building them is by far the most expensive part under Miri: one set only)
    let interp = Arc::new(Interpreter::new());
    eprintln!("interpreter built");
    let dp = Arc::new(DataParser::new());
    eprintln!("data parser built");
    // reference: each alone, one after the other
    let ref_a = run(&interp, &dp, &DATA_A, &PROG_A, false);
    let ref_b = run(&interp, &dp, &DATA_B, &PROG_B, false);
    eprintln!("sequential reference done");
    // a new machine is pristine
    let vm = VM::new();
    assert_eq!(vm.arch.flag, 0xF000);
    assert_eq!(vm.arch.cs, 0xFFFF);
    assert!(vm.mem[..64].iter().all(|b| *b == 0) && vm.mem[0xFFFC0..].iter().all(|b| *b == 0));
    // the same objects, two preemptively scheduled threads
    let (i1, d1) = (interp.clone(), dp.clone());
    let (i2, d2) = (interp.clone(), dp.clone());
    let t1 = std::thread::spawn(move || run(&i1, &d1, &DATA_A, &PROG_A, true));
    let t2 = std::thread::spawn(move || run(&i2, &d2, &DATA_B, &PROG_B, true));
    let got_a = t1.join().expect("thread A");
    let got_b = t2.join().expect("thread B");
    assert_eq!(got_a, ref_a, "machine A differs when run concurrently over shared parser objects");
    assert_eq!(got_b, ref_b, "machine B differs when run concurrently over shared parser objects");
    println!("MIRI-THREADS-OK");
}
