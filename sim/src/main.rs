//! simctl: deterministic simulation with fault injection for the 8086 emulator CLI.
// the real driver sources of /repo's binary crate (must be named `driver` at the crate root)
#[path = "/repo/src/driver/mod.rs"]
#[allow(dead_code, unused_imports)]
mod driver;

mod history;
mod rng;
mod scenario;
mod world;

use history::*;
use scenario::*;

fn main() {
    let args: Vec<String> = std::env::args().collect();
    match args.get(1).map(|s| s.as_str()) {
        Some("smoke") => smoke(),
        _ => {
            eprintln!("usage: simctl smoke");
            std::process::exit(2);
        }
    }
}

fn smoke() {
    let src = std::fs::read("/repo/examples/addition.s").unwrap();
    let mut s = Scenario::new(&src);
    s.interpreted = true;
    s.stdin.bytes = Bytes(b"n\nprint reg\nn\n".to_vec());
    let t = std::time::Instant::now();
    let h = world::run_cli(&s);
    let el = t.elapsed();
    for e in &h.events {
        match e {
            Event::Probe { idx, code, mem, .. } => println!("Probe idx={} code={:?} memdelta={}", idx, code, mem.len()),
            e => println!("{:?}", e),
        }
    }
    println!("self_check: {:?}  digest {:016x}  elapsed {:?}", world::self_check(&h), h.digest(), el);
}
