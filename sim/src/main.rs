//! simctl: deterministic simulation with fault injection for the 8086 emulator CLI.
#![allow(dead_code)]
#![recursion_limit = "512"]
// the real driver sources of /repo's binary crate (must be named `driver` at the crate root)
#[path = "/repo/src/driver/mod.rs"]
#[allow(dead_code, unused_imports)]
mod driver;

mod c15;
mod c19;
mod case;
mod diag;
mod dispatch;
mod fidelity;
mod gen;
mod history;
mod multi;
mod oracle;
mod rng;
mod runner;
mod scenario;
mod session;
mod supervisor;
mod world;

fn main() {
    let args: Vec<String> = std::env::args().collect();
    let code = match args.get(1).map(|s| s.as_str()) {
        Some("check") => supervisor::check_main(&args[2..]),
        Some("worker") => supervisor::worker_main(&args[2..]),
        Some("replay") => supervisor::replay_main(&args[2..]),
        Some("one") => supervisor::one_main(&args[2..]),
        Some("seq") => supervisor::seq_main(&args[2..]),
        Some("rss") => c15::rss_main(&args[2..]),
        Some("gen") => supervisor::gen_main(&args[2..]),
        _ => {
            eprintln!("usage: simctl check <PROP> [--tier quick|thorough] [--runs N] [--workers W]");
            eprintln!("       simctl replay <file>");
            eprintln!("       simctl one <PROP> <seed> <run> [--dump]");
            2
        }
    };
    std::process::exit(code);
}
