//! Fully explicit description of one simulated execution. Execution is a pure function of
//! a `Scenario` (and the code under test): no PRNG, no clock, no hash-order inside.
use serde::{Deserialize, Serialize};

/// Byte string that serialises as {"text": ".."} when it is UTF-8 and {"hex": ".."} otherwise
#[derive(Clone, Debug, PartialEq, Eq, Default)]
pub struct Bytes(pub Vec<u8>);

#[derive(Serialize, Deserialize)]
enum BytesRepr {
    #[serde(rename = "text")]
    Text(String),
    #[serde(rename = "hex")]
    Hex(String),
}

impl Serialize for Bytes {
    fn serialize<S: serde::Serializer>(&self, s: S) -> Result<S::Ok, S::Error> {
        match std::str::from_utf8(&self.0) {
            Ok(t) => BytesRepr::Text(t.to_owned()).serialize(s),
            Err(_) => {
                let mut h = String::with_capacity(self.0.len() * 2);
                for b in &self.0 {
                    h.push_str(&format!("{:02x}", b));
                }
                BytesRepr::Hex(h).serialize(s)
            }
        }
    }
}

impl<'de> Deserialize<'de> for Bytes {
    fn deserialize<D: serde::Deserializer<'de>>(d: D) -> Result<Self, D::Error> {
        match BytesRepr::deserialize(d)? {
            BytesRepr::Text(t) => Ok(Bytes(t.into_bytes())),
            BytesRepr::Hex(h) => {
                let hb = h.as_bytes();
                if hb.len() % 2 != 0 {
                    return Err(serde::de::Error::custom("odd hex length"));
                }
                let mut v = Vec::with_capacity(hb.len() / 2);
                for i in (0..hb.len()).step_by(2) {
                    let s = std::str::from_utf8(&hb[i..i + 2]).map_err(serde::de::Error::custom)?;
                    v.push(u8::from_str_radix(s, 16).map_err(serde::de::Error::custom)?);
                }
                Ok(Bytes(v))
            }
        }
    }
}

/// What the n-th raw read on descriptor 0 does
#[derive(Clone, Debug, PartialEq, Eq, Serialize, Deserialize)]
#[serde(rename_all = "snake_case")]
pub enum ReadOp {
    /// hand over at most k bytes (at least 1 if any are left)
    Deliver(usize),
    /// EINTR
    Eintr,
    /// a hard error (EIO); sticky = every later read fails too
    Error { sticky: bool },
}

/// What the n-th raw write on descriptor 1 does
#[derive(Clone, Debug, PartialEq, Eq, Serialize, Deserialize)]
#[serde(rename_all = "snake_case")]
pub enum WriteOp {
    /// accept at most k bytes (at least 1)
    Accept(usize),
    Eintr,
}

#[derive(Clone, Debug, PartialEq, Eq, Serialize, Deserialize, Default)]
pub struct StdinSpec {
    /// everything that will ever arrive; after the last byte every read returns 0 (EOF / closed)
    pub bytes: Bytes,
    /// per raw read; when exhausted: deliver all that is available
    #[serde(default)]
    pub plan: Vec<ReadOp>,
    /// capacity of the std BufReader between the driver and the raw descriptor
    #[serde(default = "default_cap")]
    pub bufreader_cap: usize,
}

#[derive(Clone, Debug, PartialEq, Eq, Serialize, Deserialize)]
pub struct StdoutSpec {
    #[serde(default)]
    pub plan: Vec<WriteOp>,
    #[serde(default = "default_wcap")]
    pub linewriter_cap: usize,
}

impl Default for StdoutSpec {
    fn default() -> Self {
        StdoutSpec { plan: vec![], linewriter_cap: default_wcap() }
    }
}

fn default_cap() -> usize {
    8192
}
fn default_wcap() -> usize {
    1024
}
fn default_fuel() -> u64 {
    4000
}
fn default_stack() -> usize {
    8192
}

/// One whole-CLI execution: stored source file + console + environment
#[derive(Clone, Debug, PartialEq, Eq, Serialize, Deserialize, Default)]
pub struct Scenario {
    /// -i / --interpreted
    #[serde(default)]
    pub interpreted: bool,
    /// the stored source file as the emulator will read it (storage faults already applied)
    pub source: Bytes,
    /// informational: which storage faults produced `source`
    #[serde(default)]
    pub storage_faults: Vec<String>,
    #[serde(default)]
    pub stdin: StdinSpec,
    #[serde(default)]
    pub stdout: StdoutSpec,
    /// key of every HashMap / HashSet created during the run
    #[serde(default)]
    pub hash_seed: u64,
    /// allocate, fill with 0xAA and free a few 1 MiB blocks before the run
    #[serde(default)]
    pub dirty_heap: bool,
    /// run on a thread that has already executed another session (warm thread-locals)
    #[serde(default)]
    pub warm_thread: bool,
    /// maximum number of run-loop iterations
    #[serde(default = "default_fuel")]
    pub fuel: u64,
    #[serde(default = "default_stack")]
    pub stack_kib: usize,
    /// the simulated clock every shimmed `Instant::now()` / `SystemTime::now()` reads (hook 9)
    #[serde(default)]
    pub clock: ClockSpec,
}

/// Simulated clock: starts at `start_ns`; read number k first advances it by `plan[k % len]`
/// nanoseconds (an empty plan is a frozen clock)
#[derive(Clone, Debug, PartialEq, Eq, Serialize, Deserialize, Default)]
pub struct ClockSpec {
    #[serde(default)]
    pub start_ns: u64,
    #[serde(default)]
    pub plan: Vec<u64>,
}

impl ClockSpec {
    /// one millisecond per read
    pub fn ticking() -> ClockSpec {
        ClockSpec { start_ns: 0, plan: vec![1_000_000] }
    }
}

impl Scenario {
    pub fn new(source: &[u8]) -> Scenario {
        Scenario {
            interpreted: false,
            source: Bytes(source.to_vec()),
            storage_faults: vec![],
            stdin: StdinSpec { bytes: Bytes(vec![]), plan: vec![], bufreader_cap: default_cap() },
            stdout: StdoutSpec::default(),
            hash_seed: 0,
            dirty_heap: false,
            warm_thread: false,
            fuel: default_fuel(),
            stack_kib: default_stack(),
            clock: ClockSpec::ticking(),
        }
    }
}

/// Generator bookkeeping the oracles rely on (never derived from the system under test)
#[derive(Clone, Debug, PartialEq, Eq, Serialize, Deserialize, Default)]
pub struct GenInfo {
    /// for every emitted instruction index: 1-based source line that produced it
    pub idx_line: Vec<usize>,
    /// for every emitted instruction index: class (plain, print, int3, int10, int21, rep, call, ret,
    /// implied_ret, macro_body, popf, div, hlt, jmp)
    pub idx_class: Vec<String>,
    /// index of the first executed instruction (`start`)
    pub start_idx: usize,
    /// feature tags of this program (for evidence and rare-condition probes)
    #[serde(default)]
    pub tags: Vec<String>,
}
