//! The simulated world of one whole-CLI execution: raw descriptors 0 and 1 behind the real
//! std BufReader / LineWriter, the probe, the exit shim, panic capture.
use crate::driver::sim_io::{self, Caller, Console, SimExit};
use crate::driver::CMDDriver;
use crate::history::*;
use crate::scenario::*;
use emulator_8086_lib::VM;
use std::cell::RefCell;
use std::collections::VecDeque;
use std::io::{self, BufRead, BufReader, LineWriter, Read, Write};
use std::rc::Rc;

struct Shared {
    events: Vec<Event>,
    raw_out: Vec<u8>,
    stdin: Vec<u8>,
    pos: usize,
    rplan: VecDeque<ReadOp>,
    sticky_err: bool,
    wplan: VecDeque<WriteOp>,
}

struct RawIn(Rc<RefCell<Shared>>);
struct RawOut(Rc<RefCell<Shared>>);

impl Read for RawIn {
    fn read(&mut self, buf: &mut [u8]) -> io::Result<usize> {
        let mut sh = self.0.borrow_mut();
        let asked = buf.len();
        if sh.sticky_err {
            sh.events.push(Event::RawR { asked, res: "eio".into() });
            return Err(io::Error::new(io::ErrorKind::Other, "Input/output error (os error 5)"));
        }
        let avail = sh.stdin.len() - sh.pos;
        let op = if avail == 0 { None } else { sh.rplan.pop_front() };
        let k = match op {
            Some(ReadOp::Eintr) => {
                sh.events.push(Event::RawR { asked, res: "eintr".into() });
                return Err(io::Error::new(io::ErrorKind::Interrupted, "Interrupted system call"));
            }
            Some(ReadOp::Error { sticky }) => {
                sh.sticky_err = sticky;
                sh.events.push(Event::RawR { asked, res: "eio".into() });
                return Err(io::Error::new(
                    io::ErrorKind::Other,
                    "Input/output error (os error 5)",
                ));
            }
            Some(ReadOp::Deliver(k)) => k.max(1),
            None => usize::MAX,
        };
        let n = k.min(avail).min(asked);
        let p = sh.pos;
        buf[..n].copy_from_slice(&sh.stdin[p..p + n]);
        sh.pos += n;
        let res = if n == 0 && asked > 0 { "eof" } else { "ok" };
        sh.events.push(Event::RawR { asked, res: res.into() });
        Ok(n)
    }
}

impl Write for RawOut {
    fn write(&mut self, buf: &[u8]) -> io::Result<usize> {
        let mut sh = self.0.borrow_mut();
        let asked = buf.len();
        if asked == 0 {
            return Ok(0);
        }
        let k = match sh.wplan.pop_front() {
            Some(WriteOp::Eintr) => {
                sh.events.push(Event::RawW { asked, accepted: None });
                return Err(io::Error::new(io::ErrorKind::Interrupted, "Interrupted system call"));
            }
            Some(WriteOp::Accept(k)) => k.max(1),
            None => usize::MAX,
        };
        let n = k.min(asked);
        sh.raw_out.extend_from_slice(&buf[..n]);
        sh.events.push(Event::RawW { asked, accepted: Some(n) });
        Ok(n)
    }
    fn flush(&mut self) -> io::Result<()> {
        Ok(())
    }
}

/// A line's worth of bytes taken through fill_buf / consume, as the line-level result it stands
/// for: text when it is UTF-8; otherwise what read_line would have said about it (InvalidData),
/// with the bytes attached after a colon, because code that reads raw bytes may also accept them
fn raw_line(bytes: &[u8]) -> LineRes {
    match std::str::from_utf8(bytes) {
        Ok(t) => LineRes::Ok(t.to_owned()),
        Err(_) => {
            let mut h = String::from("InvalidData:");
            for b in bytes {
                h.push_str(&format!("{:02x}", b));
            }
            LineRes::Err(h)
        }
    }
}

/// Supplies the next input line on demand (generation-time dry runs only)
pub type Adaptive = Box<dyn FnMut(Who, &[u16; 14], &[u8]) -> Option<Vec<u8>>>;

pub struct SimConsole {
    sh: Rc<RefCell<Shared>>,
    rd: BufReader<RawIn>,
    wr: LineWriter<RawOut>,
    fuel: u64,
    steps: u64,
    shadow: Vec<u8>,
    adaptive: Option<Adaptive>,
    last_regs: [u16; 14],
    /// spin guard: consecutive prompt-level reads at EOF (a real run would never end)
    eof_prompt_reads: u32,
    /// spin guard: bytes written since the last instruction or the last line of input
    recs_since_progress: u64,
    /// spin guard: service-level reads at end of input since the last instruction
    eof_service_reads: u32,
    short_handle_writes: u32,
    partial: (Origin, Vec<u8>),
    /// what the last fill_buf offered (consume takes a prefix of it)
    last_fill: Vec<u8>,
    /// bytes consumed through fill_buf/consume that do not yet make up a whole line, per caller
    pending: [Vec<u8>; 2],
}

/// upper bound of what one legitimate statement can write: a dump of the whole 1 MiB is about
/// 4 bytes of text per byte of memory however it is cut into print! calls; 16 MiB leaves room for
/// any layout. Counted in BYTES of output, not in records (a refactoring may write one record per
/// dump or three per byte).
pub const MAX_BYTES_PER_STATEMENT: u64 = 16 << 20;

/// Payload used to stop a run that the simulator has proved will never end (EOF spin)
pub struct SimSpin;

impl SimConsole {
    fn new(scn: &Scenario, adaptive: Option<Adaptive>) -> SimConsole {
        let sh = Rc::new(RefCell::new(Shared {
            events: Vec::new(),
            raw_out: Vec::new(),
            stdin: scn.stdin.bytes.0.clone(),
            pos: 0,
            rplan: scn.stdin.plan.iter().cloned().collect(),
            sticky_err: false,
            wplan: scn.stdout.plan.iter().cloned().collect(),
        }));
        SimConsole {
            rd: BufReader::with_capacity(scn.stdin.bufreader_cap.max(1), RawIn(sh.clone())),
            wr: LineWriter::with_capacity(scn.stdout.linewriter_cap.max(1), RawOut(sh.clone())),
            sh,
            fuel: scn.fuel,
            steps: 0,
            shadow: vec![0u8; MB],
            adaptive,
            last_regs: [0; 14],
            eof_prompt_reads: 0,
            recs_since_progress: 0,
            eof_service_reads: 0,
            short_handle_writes: 0,
            partial: (Origin::Main, Vec::new()),
            last_fill: Vec::new(),
            pending: [Vec::new(), Vec::new()],
        }
    }

    fn push(&self, e: Event) {
        self.sh.borrow_mut().events.push(e);
    }
    /// the incomplete tail of a handle-level write that nothing has completed: shown as it is
    fn drain_partial(&mut self) {
        if !self.partial.1.is_empty() {
            let (origin, bytes) = std::mem::replace(&mut self.partial, (Origin::Main, Vec::new()));
            self.push(Event::Rec { origin, line: 0, text: String::from_utf8_lossy(&bytes).into_owned(), err: false });
        }
    }
}

fn mem_delta(shadow: &mut [u8], cur: &[u8]) -> Vec<(u32, u8)> {
    let mut out = Vec::new();
    for (bi, (sb, cb)) in shadow.chunks_exact_mut(4096).zip(cur.chunks_exact(4096)).enumerate() {
        if sb == cb {
            continue;
        }
        for (ci, (s, c)) in sb.chunks_exact_mut(64).zip(cb.chunks_exact(64)).enumerate() {
            if s == c {
                continue;
            }
            for j in 0..64 {
                if s[j] != c[j] {
                    out.push(((bi * 4096 + ci * 64 + j) as u32, c[j]));
                    s[j] = c[j];
                }
            }
        }
    }
    out
}

pub fn regs_of(vm: &VM) -> [u16; 14] {
    let a = &vm.arch;
    [a.flag, a.ax, a.bx, a.cx, a.dx, a.sp, a.bp, a.si, a.di, a.ip, a.cs, a.ds, a.ss, a.es]
}

impl Console for SimConsole {
    fn emit(&mut self, module: &'static str, line: u32, text: &str) {
        self.drain_partial();
        let origin = if module == "main_stub" { Origin::Main } else { origin_of(module) };
        // one print statement may legitimately dump the whole 1 MiB (1 048 576 byte records, a
        // separator record every 8 bytes and a row end every 16: 1 245 184 records); more output
        // than that without a single instruction or input line in between is output without
        // progress: stop the run, the oracle sees no proper end
        // (before the record is logged, so that records and raw output stay in step)
        self.recs_since_progress += text.len() as u64;
        if self.recs_since_progress > crate::world::MAX_BYTES_PER_STATEMENT {
            std::panic::resume_unwind(Box::new(SimSpin));
        }
        // a memory guard, not a verdict: very long histories end as "out of fuel"
        if self.sh.borrow().events.len() > 4_000_000 {
            self.push(Event::Fuel);
            std::panic::resume_unwind(Box::new(SimSpin));
        }
        self.push(Event::Rec { origin, line, text: text.to_owned(), err: false });
        if let Err(e) = self.wr.write_all(text.as_bytes()) {
            panic!("failed printing to stdout: {}", e);
        }
    }

    /// `Write::write` on the stdout handle: the line writer decides how much it takes, exactly as
    /// the real one does (everything up to the last line end, then as much of the rest as fits
    /// its buffer); only what was taken is recorded
    fn write(&mut self, module: &'static str, bytes: &[u8]) -> io::Result<usize> {
        let origin = origin_of(module);
        self.recs_since_progress += bytes.len() as u64;
        if self.recs_since_progress > crate::world::MAX_BYTES_PER_STATEMENT {
            std::panic::resume_unwind(Box::new(SimSpin));
        }
        if self.sh.borrow().events.len() > 4_000_000 {
            self.push(Event::Fuel);
            std::panic::resume_unwind(Box::new(SimSpin));
        }
        // the record goes in front of whatever the descriptor sees of it; its text is cut to
        // what the writer took once that is known
        let at = self.sh.borrow().events.len();
        self.push(Event::Rec { origin, line: 0, text: String::new(), err: false });
        let r = self.wr.write(bytes);
        let taken = match &r {
            Ok(n) => *n,
            Err(_) => 0,
        };
        if taken < bytes.len() {
            self.short_handle_writes += 1;
        }
        // a short count may cut inside a character: the incomplete tail waits for the next write
        // (records hold text; the bytes must come out exactly as the descriptor saw them)
        let mut data = std::mem::take(&mut self.partial.1);
        data.extend_from_slice(&bytes[..taken]);
        let (shown, rest) = match std::str::from_utf8(&data) {
            Ok(t) => (t.to_owned(), Vec::new()),
            Err(e) if e.error_len().is_none() => {
                let v = e.valid_up_to();
                (String::from_utf8_lossy(&data[..v]).into_owned(), data[v..].to_vec())
            }
            Err(_) => (String::from_utf8_lossy(&data).into_owned(), Vec::new()),
        };
        self.partial = (origin, rest);
        if let Some(Event::Rec { text, .. }) = self.sh.borrow_mut().events.get_mut(at) {
            *text = shown;
        }
        r
    }

    fn emit_err(&mut self, module: &'static str, line: u32, text: &str) {
        // stderr is unbuffered and not under fault injection; it shares the progress guard
        self.recs_since_progress += text.len() as u64;
        if self.recs_since_progress > crate::world::MAX_BYTES_PER_STATEMENT {
            std::panic::resume_unwind(Box::new(SimSpin));
        }
        self.push(Event::Rec { origin: origin_of(module), line, text: text.to_owned(), err: true });
    }

    fn flush(&mut self) -> io::Result<()> {
        self.drain_partial();
        self.push(Event::Flush);
        self.wr.flush()
    }

    fn read_line(&mut self, who: Caller, buf: &mut String) -> io::Result<usize> {
        let who = match who {
            Caller::Prompt => Who::Prompt,
            Caller::Service => Who::Service,
        };
        if let Some(f) = self.adaptive.as_mut() {
            if let Some(mut line) = f(who, &self.last_regs, &self.shadow) {
                self.sh.borrow_mut().stdin.append(&mut line);
            }
        }
        let before = buf.len();
        let r = self.rd.read_line(buf);
        let res = match &r {
            Ok(0) => LineRes::Eof,
            Ok(_) => LineRes::Ok(buf[before..].to_owned()),
            Err(e) => LineRes::Err(format!("{:?}", e.kind())),
        };
        let at_eof = matches!(res, LineRes::Eof);
        if matches!(res, LineRes::Ok(_)) {
            self.recs_since_progress = 0;
        }
        self.push(Event::Line { who, res });
        if who == Who::Service && at_eof {
            // a service that asks again and again at end of input, with no instruction in between,
            // will never get a different answer
            self.eof_service_reads += 1;
            if self.eof_service_reads >= 64 {
                std::panic::resume_unwind(Box::new(SimSpin));
            }
        }
        if who == Who::Prompt && at_eof {
            self.eof_prompt_reads += 1;
            if self.eof_prompt_reads >= 64 {
                // 64 consecutive prompt reads at end of input: nothing can ever change again
                std::panic::resume_unwind(Box::new(SimSpin));
            }
        } else if who == Who::Prompt {
            self.eof_prompt_reads = 0;
        }
        r
    }

    fn fill_buf(&mut self, who: Caller) -> io::Result<Vec<u8>> {
        let who = match who {
            Caller::Prompt => Who::Prompt,
            Caller::Service => Who::Service,
        };
        // (dry runs: a new line is made up only when everything served so far has been taken -
        // a line longer than the buffer is still being read when the buffer runs empty)
        let all_taken = {
            let sh = self.sh.borrow();
            sh.pos >= sh.stdin.len()
        };
        if self.rd.buffer().is_empty() && all_taken {
            if let Some(f) = self.adaptive.as_mut() {
                if let Some(mut line) = f(who, &self.last_regs, &self.shadow) {
                    self.sh.borrow_mut().stdin.append(&mut line);
                }
            }
        }
        let r = self.rd.fill_buf().map(|b| b.to_vec());
        match &r {
            Ok(b) if b.is_empty() => {
                self.push(Event::Fill { who, got: "eof".to_owned() });
                // end of input: what was consumed so far is all there will ever be of that line
                let wi = who as usize;
                if !self.pending[wi].is_empty() {
                    let res = raw_line(&self.pending[wi]);
                    self.pending[wi].clear();
                    self.push(Event::Line { who, res });
                } else {
                    self.push(Event::Line { who, res: LineRes::Eof });
                    if who == Who::Service {
                        self.eof_service_reads += 1;
                        if self.eof_service_reads >= 64 {
                            std::panic::resume_unwind(Box::new(SimSpin));
                        }
                    }
                    if who == Who::Prompt {
                        self.eof_prompt_reads += 1;
                        if self.eof_prompt_reads >= 64 {
                            std::panic::resume_unwind(Box::new(SimSpin));
                        }
                    }
                }
            }
            Ok(b) => self.push(Event::Fill { who, got: format!("{}", b.len()) }),
            Err(e) => {
                self.push(Event::Fill { who, got: format!("err:{:?}", e.kind()) });
                // EINTR is not a failed line: every std reader built on fill_buf tries again
                if e.kind() != io::ErrorKind::Interrupted {
                    // the read that was under way has failed: what it had already taken of the
                    // line is part of that failed read (read_line drops it the same way)
                    self.pending[who as usize].clear();
                    self.push(Event::Line { who, res: LineRes::Err(format!("{:?}", e.kind())) });
                }
            }
        }
        self.last_fill = r.as_ref().map(|b| b.clone()).unwrap_or_default();
        r
    }

    fn consume(&mut self, who: Caller, n: usize) {
        let who = match who {
            Caller::Prompt => Who::Prompt,
            Caller::Service => Who::Service,
        };
        let n = n.min(self.last_fill.len());
        let taken: Vec<u8> = self.last_fill.drain(..n).collect();
        self.rd.consume(n);
        self.push(Event::Consumed { who, bytes: Bytes(taken.clone()) });
        let wi = who as usize;
        self.pending[wi].extend_from_slice(&taken);
        // every completed line is one Line event, as if read_line had been used
        while let Some(p) = self.pending[wi].iter().position(|b| *b == b'\n') {
            let line: Vec<u8> = self.pending[wi].drain(..=p).collect();
            self.recs_since_progress = 0;
            if who == Who::Prompt {
                self.eof_prompt_reads = 0;
            }
            self.push(Event::Line { who, res: raw_line(&line) });
        }
    }

    fn probe(&mut self, idx: usize, code: &str, vm: &VM) -> bool {
        // a caller that took only part of a line and went on: that part is what it read
        for (wi, who) in [(0usize, Who::Prompt), (1usize, Who::Service)].iter() {
            if !self.pending[*wi].is_empty() {
                let res = raw_line(&self.pending[*wi]);
                self.pending[*wi].clear();
                self.push(Event::Line { who: *who, res });
            }
        }
        self.steps += 1;
        if self.steps > self.fuel {
            self.push(Event::Fuel);
            return true;
        }
        self.recs_since_progress = 0;
        self.eof_service_reads = 0;
        let mem = mem_delta(&mut self.shadow, &vm.mem[..]);
        self.last_regs = regs_of(vm);
        self.push(Event::Probe { idx, code: code.to_owned(), regs: regs_of(vm), mem });
        false
    }

    fn exit(&mut self, code: i32) {
        self.push(Event::Exit(code));
    }
}

thread_local! {
    static LAST_PANIC: RefCell<Option<(String, String, u32)>> = RefCell::new(None);
}

pub fn install_panic_hook() {
    static ONCE: std::sync::Once = std::sync::Once::new();
    ONCE.call_once(|| {
        std::panic::set_hook(Box::new(|info| {
            let msg = if let Some(s) = info.payload().downcast_ref::<&str>() {
                (*s).to_owned()
            } else if let Some(s) = info.payload().downcast_ref::<String>() {
                s.clone()
            } else {
                "<non-string panic payload>".to_owned()
            };
            let (file, line) = match info.location() {
                Some(l) => (l.file().to_owned(), l.line()),
                None => ("?".to_owned(), 0),
            };
            LAST_PANIC.with(|p| *p.borrow_mut() = Some((msg, file, line)));
        }));
    });
}

pub fn take_last_panic() -> Option<(String, String, u32)> {
    LAST_PANIC.with(|p| p.borrow_mut().take())
}

/// the stub of bin.rs `main` after argument handling: read file, run driver, final newline
fn cli_main(scn: &Scenario) {
    let input = match String::from_utf8(scn.source.0.clone()) {
        Ok(s) => s,
        Err(_) => {
            sim_io::emit(
                "main_stub",
                0,
                "Error Reading file : stream did not contain valid UTF-8\nExiting\n".to_owned(),
            );
            // bin.rs: std::process::exit(1)
            sim_io::shim_ui::process::exit(1);
        }
    };
    let driver = CMDDriver::new(input, scn.interpreted);
    driver.run();
    sim_io::emit("main_stub", 0, "\n".to_owned());
}

/// Execute on the current thread. Returns the history (and the script the adaptive stdin built).
pub fn run_here(scn: &Scenario, adaptive: Option<Adaptive>) -> (History, Vec<u8>) {
    install_panic_hook();
    emulator_8086_lib::sim_hash::set_seed(scn.hash_seed);
    emulator_8086_lib::sim_hash::clock_install(scn.clock.start_ns, scn.clock.plan.clone());
    if scn.dirty_heap {
        let mut blocks: Vec<Vec<u8>> = Vec::new();
        for _ in 0..3 {
            blocks.push(vec![0xAAu8; MB]);
        }
        // make sure the fill is not optimised away
        let s: u64 = blocks.iter().map(|b| b[12345] as u64).sum();
        assert_eq!(s, 3 * 0xAA);
        drop(blocks);
    }
    let console = SimConsole::new(scn, adaptive);
    let sh = console.sh.clone();
    let prev = sim_io::install(Box::new(console));
    assert!(prev.is_none(), "console already installed on this thread");
    let _ = take_last_panic();
    let r = std::panic::catch_unwind(std::panic::AssertUnwindSafe(|| cli_main(scn)));
    let mut console = sim_io::uninstall().expect("console vanished");
    let clock_reads = emulator_8086_lib::sim_hash::clock_uninstall().map(|c| c.calls).unwrap_or(0);
    let end = match r {
        Ok(()) => Some(Event::Return),
        Err(p) => {
            if p.is::<SimExit>() {
                None // Exit already recorded
            } else if p.is::<SimSpin>() {
                None // the spin is visible in the history (64 prompt reads at EOF)
            } else {
                let (msg, file, line) =
                    take_last_panic().unwrap_or(("<unknown>".into(), "?".into(), 0));
                Some(Event::Panic { msg, file, line })
            }
        }
    };
    // the process always flushes stdout on its way out
    let _ = console.flush();
    drop(console);
    let mut shb = sh.borrow_mut();
    if let Some(e) = end {
        if !(matches!(e, Event::Return) && shb.events.iter().any(|x| matches!(x, Event::Fuel))) {
            shb.events.push(e);
        }
    }
    let events = std::mem::take(&mut shb.events);
    let raw_out = std::mem::take(&mut shb.raw_out);
    let script = std::mem::take(&mut shb.stdin);
    let h = History { events, raw_out, stdin_consumed: shb.pos, clock_reads };
    (h, script)
}

fn warmup_scenario() -> Scenario {
    let mut s = Scenario::new(b"x: db 1\nstart:\nmov ax, 5\nprint reg\nint 3\nmov bx, 6\n");
    s.stdin.bytes = Bytes(b"print flags\nn\n".to_vec());
    s
}

/// Execute on a fresh thread with the scenario's stack size (fresh thread-locals per run).
pub fn run_cli(scn: &Scenario) -> History {
    run_cli_cpu(scn).0
}

/// the same, plus the CPU time the run's own thread used (microseconds; machine load does not count)
pub fn run_cli_cpu(scn: &Scenario) -> (History, u64) {
    let scn2 = scn.clone();
    let h = std::thread::Builder::new()
        .stack_size(scn.stack_kib.max(64) * 1024)
        .spawn(move || {
            if scn2.warm_thread {
                let _ = run_here(&warmup_scenario(), None);
            }
            let t0 = crate::c15::thread_cpu_us();
            let h = run_here(&scn2, None).0;
            (h, crate::c15::thread_cpu_us().saturating_sub(t0))
        })
        .expect("spawn")
        .join();
    match h {
        Ok(h) => h,
        Err(_) => panic!("harness thread panicked outside the simulated run"),
    }
}

/// Execute `preds` one after the other and then `scn`, all on ONE fresh thread (thread-locals of
/// the code under test live on from run to run); returns the history of `scn` only.
pub fn run_after(preds: &[Scenario], scn: &Scenario) -> History {
    let preds: Vec<Scenario> = preds.to_vec();
    let scn2 = scn.clone();
    let stack = preds.iter().map(|p| p.stack_kib).chain(std::iter::once(scn.stack_kib)).max().unwrap_or(8192);
    let h = std::thread::Builder::new()
        .stack_size(stack.max(64) * 1024)
        .spawn(move || {
            for p in &preds {
                let _ = run_here(p, None);
            }
            run_here(&scn2, None).0
        })
        .expect("spawn")
        .join();
    match h {
        Ok(h) => h,
        Err(_) => panic!("harness thread panicked outside the simulated run"),
    }
}

/// Self-check of the simulator: what the records say equals what descriptor 1 accepted
pub fn self_check(h: &History) -> Result<(), String> {
    let recs = h.records_text();
    // (a handle-level write may be cut inside a character: then both sides are compared as text)
    if recs.as_bytes() != &h.raw_out[..] && recs != String::from_utf8_lossy(&h.raw_out) {
        return Err(format!(
            "records ({} bytes) differ from raw output ({} bytes)",
            recs.len(),
            h.raw_out.len()
        ));
    }
    Ok(())
}
