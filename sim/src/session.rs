//! Builds session cases (C16, C17, C18, C20): program + stepping source + stdin script +
//! delivery faults. The script is produced by a generation-time dry run against the real
//! driver with an adaptive stdin; the finished case is fully explicit.
use crate::case::*;
use crate::gen::*;
use crate::history::*;
use crate::rng::Rng;
use crate::scenario::*;
use crate::world;
use emulator_8086_lib::{Preprocessor, PreprocessorContext, PreprocessorOutput};
use std::cell::RefCell;
use std::rc::Rc;

#[derive(Clone, Copy, Debug, PartialEq, Eq)]
pub enum AnsKind {
    Next,
    Quit,
    Print,
    Garbage,
    BadUtf8,
    Service,
}

#[derive(Clone, Debug)]
pub struct ScriptLine {
    pub who: Who,
    pub kind: AnsKind,
    pub bytes: Vec<u8>,
}

#[derive(Clone, Debug)]
pub struct ScriptPolicy {
    pub print_pct: u64,
    pub garbage_pct: u64,
    pub badutf8_pct: u64,
    /// chance per prompt read that the user quits
    pub quit_pct: u64,
    /// chance per read (prompt or service) that input ends here, for good
    pub eof_pct: u64,
    pub svc_badutf8_pct: u64,
    pub edges: bool,
}

impl ScriptPolicy {
    pub fn next_only() -> ScriptPolicy {
        ScriptPolicy {
            print_pct: 0,
            garbage_pct: 0,
            badutf8_pct: 0,
            quit_pct: 0,
            eof_pct: 0,
            svc_badutf8_pct: 0,
            edges: false,
        }
    }
}

thread_local! {
    static VALIDATOR: Preprocessor = Preprocessor::new();
}

/// Number of instructions the real assembler emits for this text, or None if it rejects it
pub fn assemble_count(text: &str) -> Option<usize> {
    // same comment stripping as the driver
    let re = regex::Regex::new(r";.*\n?").unwrap();
    let unc = re.replace_all(text, "\n").to_string();
    VALIDATOR.with(|p| {
        let mut ctx = PreprocessorContext::default();
        let mut out = PreprocessorOutput::default();
        let r = std::panic::catch_unwind(std::panic::AssertUnwindSafe(|| {
            p.parse(&mut ctx, &mut out, &unc).is_ok()
        }));
        match r {
            Ok(true) => {
                // all jump targets defined and a code label `start` exists
                for (_, l) in ctx.undefined_labels.iter() {
                    if !ctx.label_map.contains_key(l) {
                        return None;
                    }
                }
                if !ctx.label_map.contains_key("start") {
                    return None;
                }
                Some(out.code.len())
            }
            _ => None,
        }
    })
}

const NEXTS: [&str; 10] =
    ["n\n", "next\n", "N\n", "NEXT\n", "Next\n", "  n  \n", "next \n", "\tn\n", "n\r\n", "nExT\n"];
const QUITS: [&str; 5] = ["q\n", "quit\n", "Q\n", " QUIT \n", "quit\r\n"];
/// lines that are instructions of the machine, not commands of the prompt: they must be rejected
/// like any other garbage, not carried out
const GARBAGE_INSTRUCTIONS: [&str; 10] = [
    "inc ax\n", "push bx\n", "stc\n", "mov byte [250], 7\n", "mov ax, 5\n", "hlt\n", "pop cx\n", "mov ds, ax\n", "std\n", "dec sp\n",
];
const GARBAGE: [&str; 20] = [
    "next please\n",
    "n 2\n",
    "quit it\n",
    "q x\n",
    "\n",
    "foo\n",
    "nn\n",
    "print\n",
    "print regs\n",
    "12\n",
    "n n\n",
    "\u{e9}\n",
    "print mem 0x10 -> 0x20\n",
    "print mem 5\n",
    "help\n",
    "nextt\n",
    "qq\n",
    "   \n",
    "print mem -> 5\n",
    "print mem 1 : : 2\n",
];

fn prompt_print_cmd(r: &mut Rng, edges: bool) -> String {
    let addr = |r: &mut Rng| -> u32 {
        if edges && r.chance(40) {
            *r.pick(&[0u32, 0xFFFFF, 0xFFFF0, 0xFFFEF, 0x10000, 0xFFFF])
        } else if r.chance(70) {
            r.below(0x400) as u32
        } else {
            r.below(0x100000) as u32
        }
    };
    let len = |r: &mut Rng| -> u32 {
        if edges && r.chance(60) {
            *r.pick(&[0u32, 1, 15, 16, 17, 32])
        } else {
            r.below(40) as u32
        }
    };
    // a constant typed at the prompt may lie beyond 2^20 (the reader reduces it; a report is
    // accepted as well - never an abort, never other bytes)
    let beyond = |r: &mut Rng, v: u32| -> u64 {
        if edges && r.chance(8) {
            v as u64 + 0x100000 * r.range(1, 4) as u64
        } else {
            v as u64
        }
    };
    let body = match r.below(8) {
        0 | 1 => "print reg".to_owned(),
        2 => "print flags".to_owned(),
        3 | 4 => {
            let a = addr(r);
            let b = if r.chance(12) && a > 0 { a - 1 } else { (a + len(r)).min(0xFFFFF) };
            let (a, b) = (beyond(r, a), beyond(r, b));
            format!("print mem {} -> {}", a, b)
        }
        5 => {
            let a = addr(r);
            // sometimes leaves the 1 MiB space: must be reported, not printed
            let n = if r.chance(15) { 0xFFFFF - a + 1 + r.below(4) as u32 } else { len(r).min(0xFFFFF - a) };
            let (a, n) = (beyond(r, a), beyond(r, n));
            format!("print mem {} : {}", a, n)
        }
        6 => {
            let n = len(r);
            format!("print mem : {}", beyond(r, n))
        }
        _ => format!("print mem {} -> {}", r.below(64), 64 + r.below(64)),
    };
    match r.below(5) {
        0 => format!("{}\n", body.to_ascii_uppercase()),
        1 => format!("  {}  \n", body),
        2 => format!("{}\r\n", body),
        _ => format!("{}\n", body),
    }
}

fn service_line(r: &mut Rng, regs: &[u16; 14], mem: &[u8], pol: &ScriptPolicy) -> Vec<u8> {
    let ah = (regs[R_AX] >> 8) as u8;
    if r.chance(pol.svc_badutf8_pct) {
        return vec![b'a', 0xff, 0xfe, b'\n'];
    }
    let len = if ah == 0x0a {
        let a = ((regs[R_DS] as usize) * 16 + regs[R_DX] as usize) % MB;
        let cap = mem[a] as i64;
        let c = [0, 1, cap - 1, cap, cap + 1, cap + 5, 255, 300, cap / 2];
        let mut l = *r.pick(&c);
        if r.chance(6) {
            // very long lines: whatever a service leaves unread must not turn into the next line
            l = *r.pick(&[1023i64, 1024, 1025, 1500, 5000, 8191, 8192, 8193]);
        }
        if l < 0 {
            l = 0;
        }
        l as usize
    } else if r.chance(6) {
        *r.pick(&[1023usize, 1024, 1025, 1500, 5000, 8191, 8192, 8193])
    } else {
        *r.pick(&[0usize, 1, 1, 2, 5])
    };
    let mut v = Vec::with_capacity(len + 2);
    for i in 0..len {
        let ch = if r.chance(3) { b' ' } else { b'a' + ((i as u8).wrapping_add(r.below(26) as u8) % 26) };
        v.push(ch);
    }
    if ah == 0x0a && len >= 2 && r.chance(15) {
        // a character of several bytes, preferably one that straddles the capacity of the buffer:
        // the service stores bytes, it may cut inside a character
        let a = ((regs[R_DS] as usize) * 16 + regs[R_DX] as usize) % MB;
        let cap = mem[a] as usize;
        let p = if cap >= 1 && cap < len && r.chance(60) { cap - 1 } else { r.below(len as u64) as usize };
        let ch = *r.pick(&["\u{e9}", "\u{20ac}", "\u{1F600}", "\u{df}\u{e9}"]);
        v.splice(p..p + 1, ch.bytes());
    }
    if ah != 0x0a && len > 0 && r.chance(10) {
        // non-ASCII first character: its first UTF-8 byte is what AH=1 must return
        v.splice(0..1, "\u{e9}".bytes());
    }
    if r.chance(10) {
        v.extend_from_slice(b"\r\n");
    } else {
        v.push(b'\n');
    }
    v
}

/// Dry run of `scn` (its stdin bytes are ignored) with answers drawn from `pol`.
/// Returns the history and the script that was served, line by line.
pub fn dry_run(scn: &Scenario, pol: &ScriptPolicy, r: &mut Rng) -> (History, Vec<ScriptLine>) {
    let lines: Rc<RefCell<Vec<ScriptLine>>> = Rc::new(RefCell::new(Vec::new()));
    let l2 = lines.clone();
    let mut rr = r.fork("answers");
    let pol = pol.clone();
    let mut closed = false;
    let mut served = 0usize;
    let adaptive: world::Adaptive = Box::new(move |who, regs, mem| {
        if closed {
            return None;
        }
        // a session that keeps asking is cut short: input ends after 600 lines
        served += 1;
        if served > 600 {
            closed = true;
            return None;
        }
        if rr.chance(pol.eof_pct) {
            closed = true;
            return None;
        }
        let (kind, bytes) = match who {
            Who::Service => (AnsKind::Service, service_line(&mut rr, regs, mem, &pol)),
            Who::Prompt => {
                let x = rr.below(100);
                if x < pol.quit_pct {
                    (AnsKind::Quit, rr.pick(&QUITS).as_bytes().to_vec())
                } else if x < pol.quit_pct + pol.print_pct {
                    (AnsKind::Print, prompt_print_cmd(&mut rr, pol.edges).into_bytes())
                } else if x < pol.quit_pct + pol.print_pct + pol.garbage_pct {
                    if rr.chance(4) {
                        (AnsKind::Garbage, format!("{}\n", "x".repeat(5000)).into_bytes())
                    } else if rr.chance(15) {
                        (AnsKind::Garbage, rr.pick(&GARBAGE_INSTRUCTIONS).as_bytes().to_vec())
                    } else if rr.chance(10) {
                        // k ASCII characters, then multi-byte ones: some character straddles every
                        // small byte offset (16, 32, 64, 128, 255 ...) sooner or later
                        let k = rr.urange(0, 260);
                        let tail = *rr.pick(&["\u{e9}\u{e9}\u{e9}\u{e9}", "\u{20ac}\u{20ac}\u{20ac}", "\u{1f600}\u{1f600}", "\u{e9}\u{20ac}\u{1f600}\u{e9}"]);
                        (AnsKind::Garbage, format!("{}{}\n", "g".repeat(k), tail).into_bytes())
                    } else {
                        (AnsKind::Garbage, rr.pick(&GARBAGE).as_bytes().to_vec())
                    }
                } else if x < pol.quit_pct + pol.print_pct + pol.garbage_pct + pol.badutf8_pct {
                    (AnsKind::BadUtf8, vec![0xff, 0xfe, b'n', b'\n'])
                } else {
                    (AnsKind::Next, rr.pick(&NEXTS).as_bytes().to_vec())
                }
            }
        };
        l2.borrow_mut().push(ScriptLine { who, kind, bytes: bytes.clone() });
        Some(bytes)
    });
    let mut s = scn.clone();
    s.stdin.bytes = Bytes(vec![]);
    s.stdin.plan.clear();
    s.stdout.plan.clear();
    let (h, _) = world::run_here(&s, Some(adaptive));
    let v = lines.borrow().clone();
    (h, v)
}

pub fn concat(lines: &[ScriptLine], keep: impl Fn(&ScriptLine) -> bool) -> Vec<u8> {
    let mut v = Vec::new();
    for l in lines {
        if keep(l) {
            v.extend_from_slice(&l.bytes);
        }
    }
    v
}

/// Benign delivery faults: chunking, EINTR, small buffers, short writes. Returns configured kinds.
pub fn overlay_delivery(r: &mut Rng, scn: &mut Scenario) -> Vec<String> {
    let mut kinds = Vec::new();
    let n = scn.stdin.bytes.0.len();
    if r.chance(60) && n > 0 {
        let style = r.below(3);
        let mut plan = Vec::new();
        let reads = (n * 2).min(400);
        for _ in 0..reads {
            if r.chance(10) {
                plan.push(ReadOp::Eintr);
            }
            let k = match style {
                0 => 1,
                1 => r.urange(1, 4),
                _ => r.urange(1, 40),
            };
            plan.push(ReadOp::Deliver(k));
        }
        scn.stdin.plan = plan;
        kinds.push("chunk".to_owned());
        kinds.push("eintr".to_owned());
    }
    if r.chance(50) {
        scn.stdin.bufreader_cap = *r.pick(&[1usize, 2, 3, 5, 7, 16, 64, 4096]);
        kinds.push("small_bufreader".to_owned());
    }
    if r.chance(40) {
        let mut plan = Vec::new();
        for _ in 0..200 {
            if r.chance(15) {
                plan.push(WriteOp::Eintr);
            }
            plan.push(WriteOp::Accept(r.urange(1, 30)));
        }
        scn.stdout.plan = plan;
        scn.stdout.linewriter_cap = *r.pick(&[1usize, 8, 64, 1024]);
        kinds.push("short_write".to_owned());
    }
    kinds
}

/// Terminal stdin faults placed after the script is known. Returns configured kinds.
pub fn overlay_terminal(r: &mut Rng, scn: &mut Scenario, lines: &[ScriptLine]) -> Vec<String> {
    let mut kinds = Vec::new();
    let n = scn.stdin.bytes.0.len();
    match r.below(10) {
        0 | 1 | 2 => {
            // premature EOF at a line boundary
            if !lines.is_empty() {
                let k = r.usize_below(lines.len() + 1);
                let off: usize = lines[..k].iter().map(|l| l.bytes.len()).sum();
                scn.stdin.bytes.0.truncate(off);
                kinds.push("eof_at_line".to_owned());
            }
        }
        3 | 4 => {
            // EOF in the middle of a line (or exactly before its newline)
            if n > 0 {
                let off = r.usize_below(n);
                scn.stdin.bytes.0.truncate(off);
                kinds.push("eof_mid_line".to_owned());
            }
        }
        5 => {
            scn.stdin.bytes.0.clear();
            kinds.push("closed".to_owned());
        }
        6 | 7 => {
            // a read error somewhere
            let sticky = r.chance(40);
            let at = r.usize_below(scn.stdin.plan.len().max(lines.len()).max(1));
            // make sure the plan is long enough to reach it: one whole line per read otherwise
            if scn.stdin.plan.is_empty() {
                let mut plan = Vec::new();
                for l in lines {
                    plan.push(ReadOp::Deliver(l.bytes.len()));
                }
                scn.stdin.plan = plan;
                scn.stdin.bufreader_cap = 8192;
            }
            let at = at.min(scn.stdin.plan.len());
            scn.stdin.plan.insert(at, ReadOp::Error { sticky });
            kinds.push(if sticky { "read_error_sticky".to_owned() } else { "read_error".to_owned() });
        }
        _ => {}
    }
    kinds
}

#[derive(Clone, Copy, Debug, PartialEq, Eq)]
pub enum Stepping {
    None,
    Interpreted,
    Tf,
    Int3,
    Mixed,
}

pub struct SessionPlan {
    pub property: &'static str,
    pub stepping: Stepping,
    pub feat: Feat,
    pub layout: Layout,
    pub body: (usize, usize),
    pub policy: ScriptPolicy,
    pub faulted: bool,
    pub alt_plain_ref: bool,
    pub alt_no_prints: bool,
}

pub struct Built {
    pub case: Case,
    /// tags of rare conditions reached at generation time
    pub rejects: u32,
}

/// Build one session case. Returns None when no acceptable program was found in 12 attempts
/// (never a verdict).
pub fn build_session(r: &mut Rng, seed: u64, run: u64, plan: &SessionPlan) -> Option<Built> {
    let mut rejects = 0;
    for _attempt in 0..12 {
        let mut feat = plan.feat.clone();
        feat.tf = matches!(plan.stepping, Stepping::Tf) || (plan.stepping == Stepping::Mixed && r.chance(40));
        if matches!(plan.stepping, Stepping::Int3) {
            feat.int3 = true;
        }
        let cfg = GenCfg { feat, layout: plan.layout.clone(), body_lo: plan.body.0, body_hi: plan.body.1 };
        let mut pr = r.fork("program");
        let prog = generate(&mut pr, &cfg);
        let text = prog.render();
        let mut info = prog.info();
        match assemble_count(&text) {
            Some(n) if n == info.idx_line.len() => {}
            // the assembler accepts the program but emits another number of instructions than the
            // generator counted (never the case on the pinned tree): the instruction -> line table
            // cannot be trusted, but the program is not thrown away - for C16 it is judged by what
            // can be said without the table (the cited line must be able to produce the instruction
            // that is executing)
            Some(_) if plan.property == "C16" && !plan.alt_plain_ref => {
                info.tags.push("count_mismatch".to_owned());
            }
            other => {
                if std::env::var("SIM_GEN_DEBUG").is_ok() {
                    println!("REJECT assemble {:?} vs {}:\n{}\n----", other, info.idx_line.len(), text);
                }
                rejects += 1;
                continue;
            }
        }
        let interpreted = match plan.stepping {
            Stepping::Interpreted => true,
            Stepping::Mixed => r.chance(50),
            _ => false,
        };
        let mut scn = Scenario::new(text.as_bytes());
        scn.interpreted = interpreted;
        scn.fuel = 3000;
        scn.hash_seed = r.next_u64();
        // dry run: learn the script
        let mut sr = r.fork("script");
        let (h, lines) = dry_run(&scn, &plan.policy, &mut sr);
        if h.out_of_fuel() {
            if std::env::var("SIM_GEN_DEBUG").is_ok() {
                println!("REJECT fuel:\n{}\n----", text);
            }
            rejects += 1;
            continue;
        }
        if let Some((_, file, _)) = h.panic() {
            // a panic inside instruction execution belongs to a not-applicable property:
            // such a program is not a usable workload. Panics in the prompt, the printer or
            // the interrupt services are what the session properties are about: keep those.
            let in_lib = file.contains("/src/lib/");
            let last_class = h
                .events
                .iter()
                .rev()
                .find_map(|e| match e {
                    Event::Probe { code, .. } => Some(code_class(code)),
                    _ => None,
                })
                .unwrap_or("plain");
            if in_lib && !matches!(last_class, "print" | "int10" | "int21" | "int3") {
                if std::env::var("SIM_GEN_DEBUG").is_ok() {
                    println!("REJECT na-panic {:?}:\n{}\n----", h.panic(), text);
                }
                rejects += 1;
                continue;
            }
        }
        scn.stdin.bytes = Bytes(concat(&lines, |_| true));
        let mut case = Case::new(plan.property, "session", seed, run, scn);
        case.gen = Some(info);
        case.program = Some(prog.to_ser());
        let mut fr = r.fork("faults");
        if plan.faulted {
            case.config = "faulted".to_owned();
            let mut kinds = overlay_delivery(&mut fr, &mut case.scn);
            kinds.extend(overlay_terminal(&mut fr, &mut case.scn, &lines));
            kinds.sort();
            kinds.dedup();
            case.faults = kinds;
            case.scn.dirty_heap = fr.chance(20);
            case.scn.warm_thread = fr.chance(20);
        }
        if plan.alt_plain_ref {
            // plain run of the reference variant: stepping sources neutralised, only service input
            let rtext = prog.render_ref();
            let rinfo = prog.info_ref();
            match assemble_count(&rtext) {
                Some(n) if n == rinfo.idx_line.len() => {}
                other => {
                    if std::env::var("SIM_GEN_DEBUG").is_ok() {
                        println!("REJECT ref assemble {:?} vs {}:\n{}\n----", other, rinfo.idx_line.len(), rtext);
                    }
                    rejects += 1;
                    continue;
                }
            }
            let mut a = Scenario::new(rtext.as_bytes());
            a.interpreted = false;
            a.fuel = case.scn.fuel;
            a.hash_seed = case.scn.hash_seed;
            a.stdin.bytes = Bytes(concat(&lines, |l| l.who == Who::Service));
            case.alts.push(AltRun { role: "plain_ref".to_owned(), scn: a, gen: Some(rinfo) });
        }
        if plan.alt_plain_ref && case.gen.as_ref().map(|g| g.tags.iter().any(|t| t == "tf_set_by_popf")).unwrap_or(false) {
            // the same program stepped the other way: reference variant (TF never set) under -i,
            // every prompt answered with next, the services fed the same lines. Both ways of
            // stepping must execute the same instructions (a REP iteration counts as one).
            let rtext = prog.render_ref();
            let rinfo = prog.info_ref();
            let mut b = Scenario::new(rtext.as_bytes());
            b.interpreted = true;
            b.fuel = case.scn.fuel;
            b.hash_seed = case.scn.hash_seed;
            let mut svc: std::collections::VecDeque<Vec<u8>> =
                lines.iter().filter(|l| l.who == Who::Service).map(|l| l.bytes.clone()).collect();
            let mut served = 0usize;
            let adaptive: world::Adaptive = Box::new(move |who, _regs, _mem| {
                served += 1;
                if served > 4000 {
                    return None;
                }
                match who {
                    Who::Prompt => Some(b"n\n".to_vec()),
                    Who::Service => svc.pop_front(),
                }
            });
            let (_, script) = world::run_here(&b, Some(adaptive));
            b.stdin.bytes = Bytes(script);
            case.alts.push(AltRun { role: "interpreted_ref".to_owned(), scn: b, gen: Some(rinfo) });
        }
        if plan.alt_no_prints && lines.iter().any(|l| l.kind == AnsKind::Print || l.kind == AnsKind::Garbage) {
            // the same session with every line that must not advance or change anything taken out
            let mut a = case.scn.clone();
            a.stdin.bytes = Bytes(concat(&lines, |l| l.kind != AnsKind::Print && l.kind != AnsKind::Garbage));
            a.stdin.plan.clear();
            a.stdout.plan.clear();
            // only meaningful when the main script was not cut short
            if !case.faults.iter().any(|f| f.starts_with("eof") || f == "closed" || f.starts_with("read_error")) {
                case.alts.push(AltRun { role: "no_prints".to_owned(), scn: a, gen: None });
            }
        }
        return Some(Built { case, rejects });
    }
    None
}

/// Recompute source text, bookkeeping and the reference variant after the program lines of
/// a case were edited (minimiser). Returns false when the real assembler no longer accepts
/// the program or the instruction count no longer matches the bookkeeping.
pub fn rebuild_from_program(case: &mut Case) -> bool {
    let p = match &case.program {
        Some(p) => p.clone(),
        None => return true,
    };
    let text = p.render(false);
    let info = p.info(false);
    match assemble_count(&text) {
        Some(n) if n == info.idx_line.len() => {}
        _ => return false,
    }
    case.scn.source = Bytes(text.clone().into_bytes());
    case.gen = Some(info);
    // the -i reference run needs a script of its own: not rebuilt by the minimiser, dropped instead
    case.alts.retain(|a| a.role != "interpreted_ref");
    for a in case.alts.iter_mut() {
        if a.role == "plain_ref" {
            let rtext = p.render(true);
            let rinfo = p.info(true);
            match assemble_count(&rtext) {
                Some(n) if n == rinfo.idx_line.len() => {}
                _ => return false,
            }
            a.scn.source = Bytes(rtext.into_bytes());
            a.gen = Some(rinfo);
        } else {
            a.scn.source = Bytes(text.clone().into_bytes());
        }
    }
    true
}
