//! Supervisor / worker processes, replay, known findings, evidence.
use crate::case::*;
use crate::history::*;
use crate::rng::fnv1a;
use crate::runner::*;
use serde::{Deserialize, Serialize};
use std::collections::{BTreeMap, HashMap};
use std::io::{BufRead, BufReader, Write};
use std::process::{Command, Stdio};
use std::sync::mpsc;
use std::time::{Duration, Instant};

fn verif_home() -> String {
    std::env::var("SIMCTL_HOME").unwrap_or_else(|_| "/verif".to_owned())
}

#[derive(Clone, Debug, Serialize, Deserialize)]
struct VMsg {
    run: u64,
    class: String,
    message: String,
    minimised: bool,
    case: Case,
}

fn env_seed() -> u64 {
    std::env::var("VERIF_SEED").ok().and_then(|s| s.trim().parse::<u64>().ok()).unwrap_or(1)
}

fn budget(prop: &str, tier: &str) -> u64 {
    if prop == "C15" {
        // the enumerated sub-spaces come first, the seeded part after them
        return if tier == "thorough" {
            crate::c15::truncation_space() + crate::c15::replacement_space() + 40000
        } else {
            crate::c15::truncation_space() + 3000
        };
    }
    let quick = match prop {
        "C15" => 6000,
        "C16" => 4000,
        "C17" => 4000,
        "C18" => 5000,
        "C19" => 3000 + crate::c19::SERVICE_ENUM,
        "C20" => 4000,
        _ => 1000,
    };
    if tier == "thorough" {
        quick * 20
    } else {
        quick
    }
}

fn run_digest(case: &Option<Case>, ex: Option<&Exec>, viols: &[Violation]) -> u64 {
    let mut h = 0u64;
    if let Some(c) = case {
        h ^= fnv1a(&serde_json::to_vec(c).unwrap());
    }
    if let Some(ex) = ex {
        h = h.rotate_left(7) ^ ex.h.digest();
        for a in &ex.alts {
            h = h.rotate_left(7) ^ a.digest();
        }
    }
    for v in viols {
        h = h.rotate_left(3) ^ fnv1a(v.class.as_bytes());
    }
    h
}

fn summarise_history(h: &History, max: usize) -> Vec<String> {
    let mut out = Vec::new();
    for e in h.events.iter() {
        let s = match e {
            Event::RawW { .. } | Event::RawR { .. } => continue,
            Event::Probe { idx, code, regs, mem } => {
                format!("probe idx={} code={:?} ax={:04X} cx={:04X} flags={:04X} memdelta={}", idx, code, regs[R_AX], regs[R_CX], regs[R_FLAGS], mem.len())
            }
            Event::Rec { origin, text, .. } => {
                let t: String = text.chars().take(70).collect();
                format!("rec {:?} {:?}", origin, t)
            }
            Event::Line { who, res } => {
                let r = match res {
                    LineRes::Ok(t) => format!("ok {:?}", t.chars().take(40).collect::<String>()),
                    LineRes::Eof => "eof".to_owned(),
                    LineRes::Err(k) => format!("err {}", k),
                };
                format!("read_line {:?} -> {}", who, r)
            }
            e => format!("{:?}", e),
        };
        out.push(s);
        if out.len() >= max {
            out.push("…".to_owned());
            break;
        }
    }
    out
}

fn sample_json(case: &Case, ex: &Exec) -> serde_json::Value {
    serde_json::json!({
        "run": case.run,
        "kind": case.kind,
        "config": case.config,
        "faults_configured": case.faults,
        "interpreted": case.scn.interpreted,
        "source": String::from_utf8_lossy(&case.scn.source.0).chars().take(600).collect::<String>(),
        "stdin": String::from_utf8_lossy(&case.scn.stdin.bytes.0).chars().take(200).collect::<String>(),
        "stdin_plan_len": case.scn.stdin.plan.len(),
        "bufreader_cap": case.scn.stdin.bufreader_cap,
        "other_runs_compared": case.alts.iter().map(|a| a.role.clone()).collect::<Vec<_>>(),
        "history": summarise_history(&ex.h, 40),
    })
}

// ---------------------------------------------------------------------------------------
// worker

pub fn worker_main(args: &[String]) -> i32 {
    // worker <prop> <seed> <w> <nworkers> <total> <from>
    if args.len() < 6 {
        eprintln!("worker: bad arguments");
        return 2;
    }
    let prop = args[0].clone();
    let seed: u64 = args[1].parse().unwrap();
    let w: u64 = args[2].parse().unwrap();
    let nw: u64 = args[3].parse().unwrap();
    let total: u64 = args[4].parse().unwrap();
    let from: u64 = args[5].parse().unwrap();
    let recheck = args.get(6).map(|s| s == "recheck").unwrap_or(false);
    // generation-time dry runs execute on this thread: give it a roomy stack
    let t = std::thread::Builder::new()
        .stack_size(64 << 20)
        .spawn(move || worker_loop(&prop, seed, w, nw, total, from, recheck))
        .unwrap();
    t.join().unwrap_or(2)
}

fn worker_loop(prop: &str, seed: u64, w: u64, nw: u64, total: u64, from: u64, recheck: bool) -> i32 {
    let out = std::io::stdout();
    let mut stats = Stats::default();
    let mut minimised_classes: BTreeMap<String, u32> = BTreeMap::new();
    let mut samples = 0;
    let mut i = from;
    while i < total {
        {
            let mut o = out.lock();
            let _ = writeln!(o, "B {}", i);
            let _ = o.flush();
        }
        let (digest, herr) = one_run(prop, seed, i, &mut stats, &mut minimised_classes, &mut samples, w == 0);
        {
            let mut o = out.lock();
            if let Some(e) = herr {
                let _ = writeln!(o, "H run {}: {}", i, e);
            }
            let _ = writeln!(o, "E {} {}", i, digest);
            let _ = o.flush();
        }
        i += nw;
    }
    {
        let mut o = out.lock();
        let _ = writeln!(o, "S {}", serde_json::to_string(&stats).unwrap());
        let _ = o.flush();
    }
    if recheck {
        // determinism: re-execute 5% of the neighbour's runs in this process
        let nb = (w + 1) % nw;
        let mut scratch = Stats::default();
        let mut mc = BTreeMap::new();
        let mut sm = 99;
        let mut i = nb;
        while i < total {
            if (i / nw) % 20 == 0 {
                let (digest, _) = one_run(prop, seed, i, &mut scratch, &mut mc, &mut sm, false);
                let mut o = out.lock();
                let _ = writeln!(o, "R {} {}", i, digest);
                let _ = o.flush();
            }
            i += nw;
        }
    }
    0
}

fn one_run(
    prop: &str,
    seed: u64,
    i: u64,
    stats: &mut Stats,
    minimised_classes: &mut BTreeMap<String, u32>,
    samples: &mut u32,
    want_samples: bool,
) -> (u64, Option<String>) {
    stats.runs += 1;
    let case = crate::dispatch::make_case(prop, seed, i, stats);
    let case = match case {
        Some(c) => c,
        None => return (0, None),
    };
    Stats::bump(&mut stats.config, &case.config, 1);
    Stats::bump(&mut stats.kinds, &case.kind, 1);
    for f in &case.faults {
        Stats::bump(&mut stats.faults_configured, f, 1);
    }
    if let Some(g) = &case.gen {
        for t in &g.tags {
            Stats::bump(&mut stats.tags, t, 1);
        }
    }
    let ex = crate::dispatch::execute(&case);
    if let Some(m) = &ex.multi {
        stats.executions += 1 + case.multi.as_ref().map(|s| s.machines.len() as u64).unwrap_or(0);
        stats.simulated_steps += m.stats.steps;
        stats.shapes.insert(m.stats.schedule_hash);
        if m.stats.switches > 1 {
            stats.nontrivial_shapes.insert(m.stats.schedule_hash);
        }
        Stats::bump(&mut stats.faults_fired, "poison_line", m.stats.poison);
        Stats::bump(&mut stats.faults_fired, "machine_create", m.stats.creates);
        Stats::bump(&mut stats.faults_fired, "machine_drop", m.stats.drops);
        Stats::bump(&mut stats.faults_fired, "machine_switch", m.stats.switches);
        Stats::bump(&mut stats.faults_fired, "thread_handoff", m.stats.thread_handoffs);
        Stats::bump(&mut stats.rare, "switch_inside_rep", m.stats.switch_inside_rep);
        Stats::bump(&mut stats.rare, "switch_inside_call", m.stats.switch_inside_call);
    } else {
        stats.observe(&case, &ex.h);
    }
    for a in &ex.alts {
        stats.executions += 1;
        stats.simulated_steps += a.n_probes() as u64;
    }
    let out = std::io::stdout();
    if want_samples && *samples < 3 {
        *samples += 1;
        let mut o = out.lock();
        let _ = writeln!(o, "X {}", sample_json(&case, &ex));
    }
    match crate::dispatch::judge(&case, &ex) {
        Err(e) => (run_digest(&Some(case), Some(&ex), &[]), Some(e)),
        Ok(viols) => {
            let d = run_digest(&Some(case.clone()), Some(&ex), &viols);
            for v in &viols {
                Stats::bump(&mut stats.violations, &v.class, 1);
                let n = minimised_classes.entry(v.class.clone()).or_insert(0);
                *n += 1;
                if *n <= 1 {
                    let small = crate::dispatch::minimise(&case, &v.class);
                    // message of the minimised case
                    let ex2 = crate::dispatch::execute(&small);
                    let msg = crate::dispatch::judge(&small, &ex2)
                        .ok()
                        .and_then(|vs| vs.into_iter().find(|x| x.class == v.class))
                        .map(|x| x.message)
                        .unwrap_or_else(|| v.message.clone());
                    let mut small = small;
                    small.expect = Some(Expect {
                        class: v.class.clone(),
                        message: msg.clone(),
                        digest: format!("{:016x}", ex2.h.digest()),
                        real_binary_agrees: None,
                    });
                    let m = VMsg { run: i, class: v.class.clone(), message: msg, minimised: true, case: small };
                    let mut o = out.lock();
                    let _ = writeln!(o, "V {}", serde_json::to_string(&m).unwrap());
                    let _ = o.flush();
                }
            }
            (d, None)
        }
    }
}


// ---------------------------------------------------------------------------------------
// process-history independence (C19): a run must give the same history whatever the process
// executed before it. The determinism re-check compares a run executed by its own worker with
// the same run executed by a neighbour after a different set of runs; when the two disagree the
// supervisor arbitrates with fresh processes.

/// digest of one run without statistics, samples or minimisation
fn quiet_digest(prop: &str, seed: u64, i: u64) -> u64 {
    let mut scratch = Stats::default();
    let case = match crate::dispatch::make_case(prop, seed, i, &mut scratch) {
        Some(c) => c,
        None => return 0,
    };
    let ex = crate::dispatch::execute(&case);
    match crate::dispatch::judge(&case, &ex) {
        Err(_) => run_digest(&Some(case), Some(&ex), &[]),
        Ok(v) => run_digest(&Some(case.clone()), Some(&ex), &v),
    }
}

/// `simctl seq <PROP> <seed> r1,r2,...`: execute the runs in this order in one process
pub fn seq_main(args: &[String]) -> i32 {
    if args.len() < 3 {
        eprintln!("seq <PROP> <seed> <r1,r2,...>");
        return 2;
    }
    let prop = args[0].clone();
    let seed: u64 = args[1].parse().unwrap_or(1);
    let runs: Vec<u64> = args[2].split(',').filter_map(|x| x.trim().parse().ok()).collect();
    std::thread::Builder::new()
        .stack_size(64 << 20)
        .spawn(move || {
            for r in runs {
                let d = quiet_digest(&prop, seed, r);
                println!("D {} {:016x}", r, d);
            }
            0
        })
        .unwrap()
        .join()
        .unwrap_or(2)
}

/// digest of the last run of `runs` when they are executed in order in a fresh process
fn fresh_seq_last(prop: &str, seed: u64, runs: &[u64]) -> Option<u64> {
    let exe = std::env::current_exe().ok()?;
    let list: Vec<String> = runs.iter().map(|r| r.to_string()).collect();
    let out = Command::new(exe)
        .arg("seq")
        .arg(prop)
        .arg(seed.to_string())
        .arg(list.join(","))
        .stdin(Stdio::null())
        .stderr(Stdio::null())
        .output()
        .ok()?;
    let text = String::from_utf8_lossy(&out.stdout).into_owned();
    let last = text.lines().filter(|l| l.starts_with("D ")).last()?;
    let mut it = last.split(' ');
    it.next();
    it.next();
    u64::from_str_radix(it.next()?, 16).ok()
}

#[derive(Clone, Debug, Serialize, Deserialize)]
pub struct SeqReplay {
    pub format: u32,
    /// always "sequence"
    pub kind: String,
    pub property: String,
    pub seed: u64,
    /// executed in this order in one process; the last one is the run whose history changes
    pub runs: Vec<u64>,
    pub expect: Expect,
}

/// Arbitration of one re-check mismatch. Ok(Some(replay)) = the run depends on what the process
/// executed before (a property violation for C19); Ok(None) = could not be pinned down;
/// Err = the simulator itself is not deterministic.
fn arbitrate(prop: &str, seed: u64, i: u64, nw: u64, total: u64, primary: u64, recheck: u64) -> Result<Option<SeqReplay>, String> {
    let f1 = fresh_seq_last(prop, seed, &[i]).ok_or_else(|| format!("run {}: fresh process gave no digest", i))?;
    let f2 = fresh_seq_last(prop, seed, &[i]).ok_or_else(|| format!("run {}: fresh process gave no digest", i))?;
    if f1 != f2 {
        return Err(format!("run {}: two fresh processes that execute the same fully explicit case disagree (history digests {:016x} vs {:016x}): something outside the simulated environment decides part of the run", i, f1, f2));
    }
    let w = i % nw;
    // what the disagreeing process had executed before run i
    let mut pred: Vec<u64> = Vec::new();
    if primary != f1 {
        let mut j = w;
        while j < i {
            pred.push(j);
            j += nw;
        }
    } else if recheck != f1 {
        let rw = (w + nw - 1) % nw;
        let mut j = rw;
        while j < total {
            pred.push(j);
            j += nw;
        }
        let mut j = w;
        while j < i {
            if (j / nw) % 20 == 0 {
                pred.push(j);
            }
            j += nw;
        }
    } else {
        return Ok(None);
    }
    let with = |p: &[u64]| -> Option<u64> {
        let mut l = p.to_vec();
        l.push(i);
        fresh_seq_last(prop, seed, &l)
    };
    match with(&pred) {
        Some(d) if d != f1 => {}
        _ => return Ok(None),
    }
    // shrink the predecessor list (bounded number of process launches)
    let mut budget = 28u32;
    let mut cur = pred;
    let mut n = 2usize;
    while cur.len() > 1 && budget > 0 {
        let len = cur.len();
        let chunk = (len + n - 1) / n;
        let mut reduced = false;
        // first try keeping a single chunk, then dropping one
        let mut k = 0;
        while k < len && budget > 0 {
            let keep: Vec<u64> = cur[k..(k + chunk).min(len)].to_vec();
            budget -= 1;
            if with(&keep).map(|d| d != f1).unwrap_or(false) {
                cur = keep;
                n = 2;
                reduced = true;
                break;
            }
            k += chunk;
        }
        if !reduced {
            if chunk <= 1 {
                break;
            }
            n = (n * 2).min(len);
        }
    }
    let mut runs = cur;
    runs.push(i);
    let class = format!("{}:process_history_dependent", prop);
    Ok(Some(SeqReplay {
        format: 1,
        kind: "sequence".to_owned(),
        property: prop.to_owned(),
        seed,
        runs: runs.clone(),
        expect: Expect {
            class,
            message: format!(
                "run {} gives history digest {:016x} in a fresh process but a different one after runs {:?} in the same process: something survives from one use of the library to the next",
                i, f1, &runs[..runs.len() - 1]
            ),
            digest: format!("{:016x}", f1),
            real_binary_agrees: None,
        },
    }))
}

fn replay_sequence(path: &str, sr: &SeqReplay) -> i32 {
    let last = match sr.runs.last() {
        Some(l) => *l,
        None => return 2,
    };
    let fresh = match fresh_seq_last(&sr.property, sr.seed, &[last]) {
        Some(d) => d,
        None => {
            println!("HARNESS-ERROR: no digest from a fresh process");
            return 2;
        }
    };
    let mut d = 0;
    for r in &sr.runs {
        d = quiet_digest(&sr.property, sr.seed, *r);
    }
    println!("run {} after {:?}: digest {:016x}; alone in a fresh process: {:016x}", last, &sr.runs[..sr.runs.len() - 1], d, fresh);
    if d != fresh {
        println!("violation class={}\n  {}", sr.expect.class, sr.expect.message);
        println!("VIOLATION property={} replay={}", sr.property, path);
        1
    } else {
        println!("no violation reproduced");
        0
    }
}

// ---------------------------------------------------------------------------------------
// known findings

#[derive(Clone, Debug)]
pub struct Known {
    pub property: String,
    pub class: String,
    pub what: String,
}

pub fn load_known() -> Vec<Known> {
    let mut v = Vec::new();
    let text = std::fs::read_to_string(format!("{}/known_findings.txt", verif_home())).unwrap_or_default();
    for l in text.lines() {
        let l = l.trim();
        if l.is_empty() || l.starts_with('#') || l.starts_with("fixed:") {
            continue;
        }
        // finding: property=<id> class=<class> what=<text>
        let l = l.strip_prefix("finding:").unwrap_or(l).trim();
        let p = l.find("property=");
        let c = l.find(" class=");
        let w = l.find(" what=");
        if let (Some(p), Some(c), Some(w)) = (p, c, w) {
            v.push(Known {
                property: l[p + 9..c].trim().to_owned(),
                class: l[c + 7..w].trim().to_owned(),
                what: l[w + 6..].trim().to_owned(),
            });
        }
    }
    v
}

pub fn known_match<'a>(known: &'a [Known], prop: &str, class: &str) -> Option<&'a Known> {
    known.iter().find(|k| k.property == prop && k.class == class)
}

// ---------------------------------------------------------------------------------------
// supervisor

enum Msg {
    Line(usize, String),
    Gone(usize, Option<i32>, bool),
}

struct WorkerState {
    child: std::process::Child,
    current: Option<u64>,
    last_activity: Instant,
    done: bool,
    residue: u64,
}

fn spawn_worker(
    prop: &str,
    seed: u64,
    w: u64,
    nw: u64,
    total: u64,
    from: u64,
    slot: usize,
    tx: &mpsc::Sender<Msg>,
    recheck: bool,
) -> WorkerState {
    let exe = std::env::current_exe().unwrap();
    let mut cmd = Command::new(exe);
    cmd.arg("worker")
        .arg(prop)
        .arg(seed.to_string())
        .arg(w.to_string())
        .arg(nw.to_string())
        .arg(total.to_string())
        .arg(from.to_string())
        .arg(if recheck { "recheck" } else { "norecheck" })
        .env("VERIF_TIER", std::env::var("SIMCTL_TIER").unwrap_or_else(|_| "quick".to_owned()))
        .stdin(Stdio::null())
        .stdout(Stdio::piped())
        .stderr(Stdio::null());
    let mut child = cmd.spawn().expect("spawn worker");
    let so = child.stdout.take().unwrap();
    let tx2 = tx.clone();
    std::thread::spawn(move || {
        let rd = BufReader::with_capacity(1 << 20, so);
        for l in rd.lines() {
            match l {
                Ok(l) => {
                    if tx2.send(Msg::Line(slot, l)).is_err() {
                        return;
                    }
                }
                Err(_) => break,
            }
        }
        let _ = tx2.send(Msg::Gone(slot, None, false));
    });
    WorkerState { child, current: None, last_activity: Instant::now(), done: false, residue: w }
}

pub fn check_main(args: &[String]) -> i32 {
    if args.is_empty() {
        eprintln!("check: property id missing");
        return 2;
    }
    let prop = args[0].clone();
    let mut tier = std::env::var("VERIF_TIER").unwrap_or_else(|_| "quick".to_owned());
    let mut runs_override: Option<u64> = None;
    let mut nw: u64 = std::thread::available_parallelism().map(|n| n.get() as u64).unwrap_or(8).min(16);
    let mut i = 1;
    while i < args.len() {
        match args[i].as_str() {
            "--tier" => {
                tier = args[i + 1].clone();
                i += 1;
            }
            "--runs" => {
                runs_override = args[i + 1].parse().ok();
                i += 1;
            }
            "--workers" => {
                nw = args[i + 1].parse().unwrap_or(nw);
                i += 1;
            }
            _ => {}
        }
        i += 1;
    }
    if tier != "quick" && tier != "thorough" {
        tier = "quick".to_owned();
    }
    std::env::set_var("SIMCTL_TIER", &tier);
    std::env::set_var("VERIF_TIER", &tier);
    let seed = env_seed();
    let total = runs_override.unwrap_or_else(|| budget(&prop, &tier));
    let t0 = Instant::now();
    println!("simctl check {} tier={} VERIF_SEED={} runs={} workers={}", prop, tier, seed, total, nw);

    let (tx, rx) = mpsc::channel::<Msg>();
    let mut workers: Vec<WorkerState> = Vec::new();
    for w in 0..nw {
        workers.push(spawn_worker(&prop, seed, w, nw, total, w, w as usize, &tx, true));
    }
    let mut stats = Stats::default();
    let mut digests: HashMap<u64, u64> = HashMap::new();
    let mut rechecks: Vec<(u64, u64)> = Vec::new();
    let mut viols: Vec<VMsg> = Vec::new();
    let mut harness_errors: Vec<String> = Vec::new();
    let mut samples: Vec<serde_json::Value> = Vec::new();
    let mut died: Vec<(u64, String)> = Vec::new();
    let watchdog = Duration::from_secs(120);

    loop {
        if workers.iter().all(|w| w.done) {
            break;
        }
        match rx.recv_timeout(Duration::from_secs(1)) {
            Ok(Msg::Line(slot, l)) => {
                let ws = &mut workers[slot];
                ws.last_activity = Instant::now();
                let (tag, rest) = l.split_at(l.len().min(1));
                let rest = rest.trim_start();
                match tag {
                    "B" => ws.current = rest.parse().ok(),
                    "E" => {
                        let mut it = rest.split(' ');
                        if let (Some(a), Some(b)) = (it.next(), it.next()) {
                            if let (Ok(a), Ok(b)) = (a.parse::<u64>(), b.parse::<u64>()) {
                                digests.insert(a, b);
                            }
                        }
                        ws.current = None;
                    }
                    "R" => {
                        let mut it = rest.split(' ');
                        if let (Some(a), Some(b)) = (it.next(), it.next()) {
                            if let (Ok(a), Ok(b)) = (a.parse::<u64>(), b.parse::<u64>()) {
                                rechecks.push((a, b));
                            }
                        }
                    }
                    "V" => match serde_json::from_str::<VMsg>(rest) {
                        Ok(m) => viols.push(m),
                        Err(e) => harness_errors.push(format!("bad V line: {}", e)),
                    },
                    "S" => match serde_json::from_str::<Stats>(rest) {
                        Ok(s) => stats.merge(&s),
                        Err(e) => harness_errors.push(format!("bad S line: {}", e)),
                    },
                    "X" => {
                        if let Ok(v) = serde_json::from_str::<serde_json::Value>(rest) {
                            samples.push(v);
                        }
                    }
                    "H" => harness_errors.push(rest.to_owned()),
                    _ => {}
                }
            }
            Ok(Msg::Gone(slot, _, _)) => {
                let status = workers[slot].child.wait().ok();
                let ok = status.map(|s| s.success()).unwrap_or(false);
                let cur = workers[slot].current;
                if ok && cur.is_none() {
                    workers[slot].done = true;
                } else {
                    // the worker died while executing `cur` (stack overflow, abort, kill)
                    let desc = match status {
                        Some(s) => {
                            #[cfg(unix)]
                            {
                                use std::os::unix::process::ExitStatusExt;
                                match s.signal() {
                                    Some(sig) => format!("signal {}", sig),
                                    None => format!("exit status {:?}", s.code()),
                                }
                            }
                            #[cfg(not(unix))]
                            {
                                format!("{:?}", s)
                            }
                        }
                        None => "unknown".to_owned(),
                    };
                    match cur {
                        Some(i) => {
                            died.push((i, desc));
                            let res = workers[slot].residue;
                            let next = i + nw;
                            if next < total {
                                workers[slot] = spawn_worker(&prop, seed, res, nw, total, next, slot, &tx, false);
                            } else {
                                workers[slot].done = true;
                            }
                        }
                        None => {
                            harness_errors.push(format!("worker {} ended abnormally between runs: {}", slot, desc));
                            workers[slot].done = true;
                        }
                    }
                }
            }
            Err(mpsc::RecvTimeoutError::Timeout) => {}
            Err(mpsc::RecvTimeoutError::Disconnected) => break,
        }
        // watchdog: a run whose normal cost is ~10 ms has produced nothing for two minutes
        for ws in workers.iter_mut() {
            if !ws.done && ws.current.is_some() && ws.last_activity.elapsed() > watchdog {
                let _ = ws.child.kill();
                ws.last_activity = Instant::now();
            }
        }
    }

    // optional dump of every run's digest (tools/determinism.sh compares them across worker counts)
    if let Ok(path) = std::env::var("SIMCTL_DIGESTS") {
        let mut v: Vec<(&u64, &u64)> = digests.iter().collect();
        v.sort();
        let mut out = String::new();
        for (i, d) in v {
            out.push_str(&format!("{} {:016x}\n", i, d));
        }
        let _ = std::fs::write(path, out);
    }
    // determinism recheck
    let mut mismatches = 0;
    for (i, d) in &rechecks {
        match digests.get(i) {
            Some(x) if x == d => {}
            Some(_) => mismatches += 1,
            None => {}
        }
    }
    let mut seq_viols: Vec<SeqReplay> = Vec::new();
    if mismatches > 0 {
        // arbitrate (a few of) the disagreements with fresh processes
        let mut bad: Vec<(u64, u64, u64)> = rechecks
            .iter()
            .filter_map(|(i, d)| digests.get(i).filter(|x| *x != d).map(|x| (*i, *x, *d)))
            .collect();
        bad.sort();
        let mut explained = 0;
        for (i, primary, re) in bad.iter().take(2) {
            match arbitrate(&prop, seed, *i, nw, total, *primary, *re) {
                Ok(Some(sr)) => {
                    explained += 1;
                    if seq_viols.is_empty() {
                        seq_viols.push(sr);
                    }
                }
                Ok(None) => {}
                Err(e) => {
                    if prop == "C19" {
                        // every source of randomness the code under test is known to use sits behind
                        // a seam: two fresh processes that disagree on one fully explicit case mean
                        // that the code draws on something else (an unseeded hasher, an address, a clock)
                        let mut scratch = Stats::default();
                        if let Some(mut c) = crate::dispatch::make_case(&prop, seed, *i, &mut scratch) {
                            let class = "C19:not_reproducible_across_processes".to_owned();
                            c.expect = Some(Expect { class: class.clone(), message: e.clone(), ..Default::default() });
                            Stats::bump(&mut stats.violations, &class, 1);
                            if !viols.iter().any(|v| v.class == class) {
                                viols.push(VMsg { run: *i, class, message: e.clone(), minimised: false, case: c });
                            }
                            explained += 1;
                        } else {
                            harness_errors.push(e);
                        }
                    } else {
                        harness_errors.push(e);
                    }
                }
            }
        }
        if prop == "C19" && explained > 0 && harness_errors.is_empty() {
            // a property violation, reported below
        } else if explained > 0 {
            harness_errors.push(format!(
                "{} of {} re-executed runs produced a different history digest; fresh processes agree with each other, so the code under test carries state from one run to the next (see C19)",
                mismatches, rechecks.len()
            ));
        } else {
            harness_errors.push(format!("{} of {} re-executed runs produced a different history digest", mismatches, rechecks.len()));
        }
    }

    // dead workers become violations of the run they had announced
    for (i, desc) in &died {
        let mut scratch = Stats::default();
        if let Some(mut c) = crate::dispatch::make_case(&prop, seed, *i, &mut scratch) {
            let class = format!("{}:worker_died{{{}}}", prop, desc);
            c.expect = Some(Expect { class: class.clone(), message: desc.clone(), ..Default::default() });
            viols.push(VMsg {
                run: *i,
                class,
                message: format!("the worker process executing this run died ({}): stack overflow, abort or hang", desc),
                minimised: false,
                case: c,
            });
        } else {
            harness_errors.push(format!("worker died in run {} but the case cannot be regenerated", i));
        }
    }

    // seam fidelity: the first cases of this check once more, against the real binary (guard off)
    let scratch_dir = format!("{}/sim/target/fidelity-{}", verif_home(), prop);
    let mut fid = if crate::fidelity::real_bin().is_some() {
        let n = if tier == "thorough" { 1500 } else { 160 };
        // spread over the whole range of this check's cases
        let n = n.min(total);
        let first = if prop == "C19" { crate::c19::SERVICE_ENUM } else { 0 };
        let sw = crate::fidelity::sweep(&prop, seed, n, (total / n.max(1)).max(1), nw as usize, &scratch_dir, first);
        // in C19 a disagreement is explained when the simulation itself has found that the output
        // depends on the environment (the real binary runs in yet another environment)
        let explained = prop == "C19" && viols.iter().any(|v| v.class.contains("env_dependent") || v.class.contains("history_dependent"));
        for m in sw.mismatches.iter().take(5) {
            if prop != "C19" && m.contains("a C19 matter, not a simulator bug") {
                // the simulation agrees with the real binary under whole delivery for this very case
                println!("note: {}", m);
            } else if explained {
                println!("note: simulated console and real binary disagree ({}): explained by the environment dependence reported below", m);
            } else {
                harness_errors.push(format!("simulated console and real binary disagree: {}", m));
            }
        }
        for (run, what) in sw.real_aborts.iter().take(3) {
            // C15, C18 and C20 each say "never aborts" of what their cases exercise; for the others a
            // difference between simulation and real binary stays a harness matter
            if prop == "C15" || prop == "C18" || prop == "C20" {
                let mut scratch = Stats::default();
                if let Some(mut c) = crate::dispatch::make_case(&prop, seed, *run, &mut scratch) {
                    let class = format!("{}:real_binary_aborts", prop);
                    c.expect = Some(Expect { class: class.clone(), message: what.clone(), ..Default::default() });
                    Stats::bump(&mut stats.violations, &class, 1);
                    viols.push(VMsg { run: *run, class, message: what.clone(), minimised: false, case: c });
                }
            } else {
                harness_errors.push(format!("run {}: {}", run, what));
            }
        }
        for (run, what) in sw.env_dependent.iter().take(3) {
            let mut scratch = Stats::default();
            if let Some(mut c) = crate::dispatch::make_case(&prop, seed, *run, &mut scratch) {
                let class = "C19:real_binary_env_dependent".to_owned();
                c.expect = Some(Expect { class: class.clone(), message: what.clone(), ..Default::default() });
                Stats::bump(&mut stats.violations, &class, 1);
                viols.push(VMsg { run: *run, class, message: what.clone(), minimised: false, case: c });
            }
        }
        for (run, what) in sw.not_reproducible.iter().take(3) {
            if prop == "C19" {
                let mut scratch = Stats::default();
                if let Some(mut c) = crate::dispatch::make_case(&prop, seed, *run, &mut scratch) {
                    let class = "C19:real_binary_not_reproducible".to_owned();
                    c.expect = Some(Expect { class: class.clone(), message: what.clone(), ..Default::default() });
                    Stats::bump(&mut stats.violations, &class, 1);
                    viols.push(VMsg { run: *run, class, message: what.clone(), minimised: false, case: c });
                }
            } else {
                harness_errors.push(format!("run {}: {} (a matter for C19; this check's verdicts cannot be trusted on such a tree)", run, what));
            }
        }
        Some(sw)
    } else {
        None
    };

    // C15: process-level cases for the real binary (bin.rs - arguments, reading the file, the stack
    // of the thread that runs the driver - is a stub inside the simulation and only real here)
    let mut proc_cases_run = 0u64;
    if prop == "C15" {
        if let Some(bin) = crate::fidelity::real_bin() {
            let cases = crate::fidelity::proc_cases();
            proc_cases_run = cases.len() as u64;
            let dir = format!("{}/proc", scratch_dir);
            let found: Vec<(String, Vec<u8>, bool, String)> = std::thread::scope(|sc| {
                let hs: Vec<_> = cases
                    .iter()
                    .enumerate()
                    .map(|(k, c)| {
                        let bin = bin.clone();
                        let dir = format!("{}/{}", dir, k);
                        sc.spawn(move || {
                            let r = crate::fidelity::judge_proc_case(c, &bin, &dir, "p");
                            let _ = std::fs::remove_dir_all(&dir);
                            r.map(|what| (c.name.clone(), c.file.clone().unwrap_or_default(), c.flags.contains(&"-i"), what))
                        })
                    })
                    .collect();
                hs.into_iter().filter_map(|h| h.join().ok().flatten()).collect()
            });
            for (name, file, interp, what) in found {
                let class = format!("C15:real_binary_aborts{{{}}}", name);
                let mut scn = crate::scenario::Scenario::new(&file);
                scn.interpreted = interp;
                let mut c = Case::new("C15", "realproc", seed, 0, scn);
                c.config = name.clone();
                c.expect = Some(Expect { class: class.clone(), message: what.clone(), ..Default::default() });
                Stats::bump(&mut stats.violations, &class, 1);
                viols.push(VMsg { run: 0, class, message: what, minimised: false, case: c });
            }
        }
    }
    if let Some(f) = fid.as_mut() {
        f.proc_cases = proc_cases_run;
    }

    // C15, thorough tier: memory proportional to the input (fresh processes, peak resident set)
    let mem_table = if prop == "C15" && tier == "thorough" {
        let (table, mv) = crate::c15::memory_scaling(true);
        for (class, msg) in mv {
            let k = crate::c15::SCALING_FAMILIES.iter().position(|f| class.contains(f)).unwrap_or(0) as u64;
            let mut scratch = Stats::default();
            if let Some(mut c) = crate::dispatch::make_case(&prop, seed, k, &mut scratch) {
                c.expect = Some(Expect { class: class.clone(), message: msg.clone(), ..Default::default() });
                Stats::bump(&mut stats.violations, &class, 1);
                viols.push(VMsg { run: k, class, message: msg, minimised: false, case: c });
            }
        }
        Some(table)
    } else {
        None
    };

    // C19 layer (d): what the Miri job found (thorough tier; run by ./check before this process)
    let miri: Option<serde_json::Value> = std::env::var("SIMCTL_MIRI_RESULT")
        .ok()
        .and_then(|p| std::fs::read_to_string(p).ok())
        .and_then(|t| serde_json::from_str(&t).ok());
    if prop == "C19" {
        if let Some(m) = &miri {
            if m["status"] == "violation" {
                let log = m["log"].as_str().unwrap_or("").to_owned();
                let tail: String = std::fs::read_to_string(&log)
                    .map(|t| t.lines().rev().take(25).collect::<Vec<_>>().into_iter().rev().collect::<Vec<_>>().join("\n"))
                    .unwrap_or_default();
                let class = "C19:miri_threads".to_owned();
                let scn = crate::scenario::Scenario::new(b"");
                let mut c = Case::new("C19", "miri", seed, 0, scn);
                c.expect = Some(Expect { class: class.clone(), message: tail.clone(), ..Default::default() });
                Stats::bump(&mut stats.violations, &class, 1);
                viols.push(VMsg {
                    run: 0,
                    class,
                    message: format!("two threads sharing one Interpreter / DataParser under Miri: undefined behaviour, a data race or a result that differs from the sequential one (replay: tools/miri_threads.sh; log tail follows)\n{}", tail),
                    minimised: false,
                    case: c,
                });
            }
        }
    }

    // report
    let known = load_known();
    viols.sort_by(|a, b| a.class.cmp(&b.class).then(a.run.cmp(&b.run)));
    let mut reported: BTreeMap<String, (u64, String, String)> = BTreeMap::new();
    let mut known_hit: BTreeMap<String, u64> = BTreeMap::new();
    let mut confirmations: BTreeMap<String, String> = BTreeMap::new();
    let mut solid_violations = 0u64;
    let dir = format!("{}/replays/{}", verif_home(), prop);
    let _ = std::fs::create_dir_all(&dir);
    for m in &viols {
        if reported.contains_key(&m.class) || known_hit.contains_key(&m.class) {
            continue;
        }
        if let Some(k) = known_match(&known, &prop, &m.class) {
            let n = stats.violations.get(&m.class).cloned().unwrap_or(1);
            known_hit.insert(m.class.clone(), n);
            println!("KNOWN-FINDING: property={} class={} runs={} what={}", prop, m.class, n, k.what);
            continue;
        }
        let fname = format!("{}/{}-{}-{:016x}.json", dir, seed, m.run, fnv1a(m.class.as_bytes()));
        // confirmation against unhooked code, where a file and a pipe can express the scenario
        let mut mcase = m.case.clone();
        let mut confirm = String::new();
        // a violation observed on the real binary itself, or on strings handed straight to the
        // parsers / on machines driven through the library, does not rest on the console seams
        if m.class.contains("real_binary") || m.class.contains("{direct:") || mcase.kind == "multi" || mcase.kind == "parser" {
            solid_violations += 1;
        }
        if let Some(bin) = crate::fidelity::real_bin() {
            if mcase.kind != "multi" && mcase.kind != "env" && mcase.kind != "parser" && !m.class.contains("{direct:") && !m.class.contains("not_reproducible") && !m.class.contains("superlinear")
                && crate::fidelity::pipe_expressible(&mcase.scn) && !m.class.contains("worker_died") {
                let hist = crate::world::run_cli(&mcase.scn);
                if let Some(r) = crate::fidelity::real_run(&mcase.scn, &bin, &scratch_dir, "confirm", Duration::from_secs(20)) {
                    match crate::fidelity::compare_scn(&mcase.scn, &hist, &r) {
                        Some(Ok(())) => {
                            confirm = "the real binary (guard off, file + pipe) behaves exactly as simulated".to_owned();
                            solid_violations += 1;
                            if let Some(e) = mcase.expect.as_mut() {
                                e.real_binary_agrees = Some(true);
                            }
                        }
                        Some(Err(e)) => {
                            // does the difference go away when the simulated descriptors deliver and
                            // accept everything at once, as the pipes of the real run do? Then the
                            // simulation is faithful for this very case and the violation needs a
                            // delivery pattern (chunks, interrupted or short reads and writes, a small
                            // buffer) that pipes cannot express: it stands, it just cannot be shown
                            // with the real binary
                            let mut plain = mcase.scn.clone();
                            plain.stdin.plan.clear();
                            plain.stdout.plan.clear();
                            plain.stdin.bufreader_cap = 8192;
                            plain.stdout.linewriter_cap = 1024;
                            let h2 = crate::world::run_cli(&plain);
                            if plain != mcase.scn && matches!(crate::fidelity::compare_scn(&plain, &h2, &r), Some(Ok(()))) {
                                confirm = "under whole delivery the real binary (guard off, file + pipe) behaves exactly as simulated; the violation needs chunked / interrupted / short delivery, which pipes cannot express".to_owned();
                                solid_violations += 1;
                            } else {
                                confirm = format!("the real binary does NOT behave as simulated: {}", e);
                                if let Some(x) = mcase.expect.as_mut() {
                                    x.real_binary_agrees = Some(false);
                                }
                                harness_errors.push(format!("violation {} is not confirmed by the real binary: {}", m.class, e));
                            }
                        }
                        None => {}
                    }
                }
            }
        }
        confirmations.insert(m.class.clone(), confirm);
        let body = serde_json::to_string_pretty(&mcase).unwrap();
        if let Err(e) = std::fs::write(&fname, body) {
            harness_errors.push(format!("cannot write {}: {}", fname, e));
        }
        reported.insert(m.class.clone(), (m.run, fname.clone(), m.message.clone()));
    }
    for sr in &seq_viols {
        if prop != "C19" {
            break;
        }
        let class = sr.expect.class.clone();
        if let Some(k) = known_match(&known, &prop, &class) {
            known_hit.insert(class.clone(), mismatches as u64);
            println!("KNOWN-FINDING: property={} class={} runs={} what={}", prop, class, mismatches, k.what);
            continue;
        }
        let last = *sr.runs.last().unwrap_or(&0);
        let fname = format!("{}/{}-{}-{:016x}.json", dir, seed, last, fnv1a(class.as_bytes()));
        if let Err(e) = std::fs::write(&fname, serde_json::to_string_pretty(sr).unwrap()) {
            harness_errors.push(format!("cannot write {}: {}", fname, e));
        }
        stats.violations.insert(class.clone(), mismatches as u64);
        reported.insert(class, (last, fname, sr.expect.message.clone()));
    }
    for (class, (run, fname, msg)) in &reported {
        println!("violation class={} first_run={} count={}", class, run, stats.violations.get(class).cloned().unwrap_or(1));
        println!("  {}", msg);
        if let Some(c) = confirmations.get(class) {
            if !c.is_empty() {
                println!("  {}", c);
            }
        }
        println!("VIOLATION property={} replay={}", prop, fname);
    }

    let wall = t0.elapsed().as_secs_f64();
    let evidence = build_evidence(&prop, &tier, seed, total, nw, &stats, &samples, &known_hit, &reported, rechecks.len(), mismatches, wall, &harness_errors, fid.as_ref(), miri.as_ref(), mem_table.as_ref());
    let _ = std::fs::create_dir_all(format!("{}/evidence", verif_home()));
    let ev_path = format!("{}/evidence/{}.json", verif_home(), prop);
    if let Err(e) = std::fs::write(&ev_path, serde_json::to_string_pretty(&evidence).unwrap()) {
        harness_errors.push(format!("cannot write evidence: {}", e));
    }
    println!(
        "runs={} executions={} steps={} shapes={} nontrivial_shapes={} gen_rejects={} gen_failed={} fuel_no_verdict={} recheck={}/{} wall={:.1}s",
        stats.runs, stats.executions, stats.simulated_steps, stats.shapes.len(), stats.nontrivial_shapes.len(),
        stats.gen_rejects, stats.gen_failed, stats.no_verdict_fuel, rechecks.len() - mismatches, rechecks.len(), wall
    );
    if !harness_errors.is_empty() {
        // a disagreement between simulation and real binary, or any other doubt about the harness,
        // makes simulated verdicts untrustworthy - but not those that the real binary has shown
        // itself (or that never touched the console seams): with one of those the tree does
        // violate the property, and that is the answer
        let only_seam_doubts = harness_errors.iter().all(|e| e.contains("simulated console and real binary disagree") || e.contains("is not confirmed by the real binary"));
        if solid_violations > 0 && !reported.is_empty() && only_seam_doubts {
            for e in harness_errors.iter().take(20) {
                println!("note (simulation and real binary differ elsewhere; the violations confirmed by the real binary stand): {}", e);
            }
            return 1;
        }
        for e in harness_errors.iter().take(20) {
            println!("HARNESS-ERROR: {}", e);
        }
        return 2;
    }
    if !reported.is_empty() {
        return 1;
    }
    println!("OK property={} held on everything explored", prop);
    0
}

#[allow(clippy::too_many_arguments)]
fn build_evidence(
    prop: &str,
    tier: &str,
    seed: u64,
    total: u64,
    nw: u64,
    stats: &Stats,
    samples: &[serde_json::Value],
    known_hit: &BTreeMap<String, u64>,
    reported: &BTreeMap<String, (u64, String, String)>,
    rechecked: usize,
    mismatches: usize,
    wall: f64,
    harness_errors: &[String],
    fid: Option<&crate::fidelity::Sweep>,
    miri: Option<&serde_json::Value>,
    mem_table: Option<&serde_json::Value>,
) -> serde_json::Value {
    let level = if prop == "C15" { "fault_enumeration" } else { "exploration" };
    let rare_zero: Vec<String> = crate::dispatch::expected_rare(prop)
        .iter()
        .filter(|k| stats.rare.get(**k).cloned().unwrap_or(0) == 0)
        .map(|s| s.to_string())
        .collect();
    serde_json::json!({
        "property_id": prop,
        "tier": tier,
        "seed": seed,
        "level": level,
        "wall_s": wall,
        "violations": reported.len(),
        "coverage": {
            "evaluations": stats.executions.max(1),
            "distinct_nontrivial": stats.nontrivial_shapes.len(),
            "rule": crate::dispatch::rule(prop),
            "samples": samples,
            "cases": stats.runs,
            "cases_planned": total,
            "workers": nw,
            "seeds": stats.runs,
            "runs_per_hour": if wall > 0.0 { (stats.executions as f64 / wall * 3600.0) as u64 } else { 0 },
            "simulated_steps": stats.simulated_steps,
            "console_operations": stats.console_ops,
            "simulated_time_note": "the code under test reads no clock (clock_reads_served counts the reads the simulated clock of hook 9 answered); logical time = interpreter steps + console operations",
            "clock_reads_served": stats.faults_fired.get("clock_reads_served").copied().unwrap_or(0),
            "distinct_history_shapes": stats.shapes.len(),
            "configs": stats.config,
            "case_kinds": stats.kinds,
            "faults_configured": stats.faults_configured,
            "faults_fired": stats.faults_fired,
            "rare_probes": stats.rare,
            "rare_probes_never_hit": rare_zero,
            "program_features": stats.tags,
            "generator_rejects": stats.gen_rejects,
            "generator_gave_up": stats.gen_failed,
            "no_verdict_out_of_fuel": stats.no_verdict_fuel,
            "exhaustive": false,
            "exhaustive_parts": stats.exhaustive_parts,
            "determinism_recheck": { "runs": rechecked, "mismatches": mismatches },
            "known_findings_hit": known_hit,
            "violation_classes": stats.violations,
            "harness_errors": harness_errors,
            "real_vs_stub": crate::dispatch::real_vs_stub(),
            "peak_memory_by_size_family": match mem_table {
                Some(t) => t.clone(),
                None => serde_json::json!({ "status": "measured in the thorough tier of C15 only" }),
            },
            "miri_threads": match miri {
                Some(m) => m.clone(),
                None => serde_json::json!({ "status": "not run", "note": "layer (d) runs in the thorough tier of C19 only" }),
            },
            "real_binary_fidelity": match fid {
                Some(f) => serde_json::json!({
                    "what": "the first cases of this check executed a second time by the binary built from /repo with the guard off (real file, real pipes, real main); stdout and exit status must equal the simulated ones byte for byte",
                    "sessions": f.sessions, "identical": f.compared, "not_comparable_out_of_fuel": f.not_comparable, "mismatches": f.mismatches.len(),
                    "real_binary_aborted_where_the_simulation_ends_properly": f.real_aborts.len(),
                    "process_environment_pairs": if f.env_pairs > 0 { serde_json::json!({ "pairs": f.env_pairs, "differing": f.env_dependent.len(), "what": "C19 only: the real binary once more per case with every environment variable removed, then COLUMNS=40 LINES=10 TERM=dumb NO_COLOR LANG/LC_ALL=tr_TR.UTF-8 TZ HOME PATH TMPDIR RUST_LOG set, started from the file's directory with a relative path: stdout, stderr and status must be byte-identical" }) } else { serde_json::json!(null) },
                    "process_level_cases": if f.proc_cases > 0 { serde_json::json!({ "cases": f.proc_cases, "what": "C15 only: command lines without a file, with a missing file, a directory, empty / newline-less / non-UTF-8 / NUL / CRLF / BOM files, closed stdin under -i and in a service, macro chains of 10..400 levels, 3000 brackets / parameters, a call chain of 2000 - each must end by itself with a result or a diagnostic, never with a panic or a signal (bin.rs runs for real only here)" }) } else { serde_json::json!(null) }
                }),
                None => serde_json::json!({ "sessions": 0, "note": "SIMCTL_REAL_BIN not set: real binary not available to this run" }),
            },
        },
        "assumptions": crate::dispatch::assumptions(prop),
    })
}

// ---------------------------------------------------------------------------------------
// replay / single run

pub fn replay_main(args: &[String]) -> i32 {
    if args.is_empty() {
        eprintln!("replay: file missing");
        return 2;
    }
    let t = std::thread::Builder::new().stack_size(64 << 20);
    let path = args[0].clone();
    let dump = args.iter().any(|a| a == "--dump");
    t.spawn(move || {
        let text = match std::fs::read_to_string(&path) {
            Ok(t) => t,
            Err(e) => {
                eprintln!("cannot read {}: {}", path, e);
                return 2;
            }
        };
        if let Ok(sr) = serde_json::from_str::<SeqReplay>(&text) {
            if sr.kind == "sequence" {
                return replay_sequence(&path, &sr);
            }
        }
        let case: Case = match serde_json::from_str(&text) {
            Ok(c) => c,
            Err(e) => {
                eprintln!("cannot parse {}: {}", path, e);
                return 2;
            }
        };
        if case.expect.as_ref().map(|e| e.class.ends_with("not_reproducible_across_processes")).unwrap_or(false) {
            // the case is regenerated and executed from its seed and run number in several fresh processes
            let mut ds = Vec::new();
            for _ in 0..6 {
                if let Some(d) = fresh_seq_last(&case.property, case.seed, &[case.run]) {
                    ds.push(d);
                }
            }
            let distinct: std::collections::BTreeSet<u64> = ds.iter().cloned().collect();
            println!("{} fresh processes executed run {} (seed {}): {} different history digests", ds.len(), case.run, case.seed, distinct.len());
            if distinct.len() > 1 {
                println!("VIOLATION property={} replay={}", case.property, path);
                return 1;
            }
            println!("no violation reproduced");
            return 0;
        }
        if case.expect.as_ref().map(|e| e.class.contains("real_binary_aborts")).unwrap_or(false) {
            let bin = match crate::fidelity::real_bin() {
                Some(b) => b,
                None => {
                    println!("HARNESS-ERROR: SIMCTL_REAL_BIN is not set (use ./check <ID> --replay <file>)");
                    return 2;
                }
            };
            let dir = format!("{}/sim/target/fidelity-replay", verif_home());
            let what = if case.kind == "realproc" {
                match crate::fidelity::proc_cases().into_iter().find(|c| c.name == case.config) {
                    Some(c) => crate::fidelity::judge_proc_case(&c, &bin, &dir, "rp"),
                    None => {
                        println!("HARNESS-ERROR: no process-level case is called {:?}", case.config);
                        return 2;
                    }
                }
            } else {
                crate::fidelity::real_run(&case.scn, &bin, &dir, "ra", Duration::from_secs(120))
                    .and_then(|r| crate::fidelity::aborted(&r).map(|how| format!("the real binary {}: {}", how, crate::fidelity::first_lines(&r.stderr, 3))))
            };
            return match what {
                Some(w) => {
                    println!("{}", w);
                    println!("VIOLATION property={} replay={}", case.property, path);
                    1
                }
                None => {
                    println!("no violation reproduced");
                    0
                }
            };
        }
        if case.expect.as_ref().map(|e| e.class.ends_with("real_binary_env_dependent")).unwrap_or(false) {
            let bin = match crate::fidelity::real_bin() {
                Some(b) => b,
                None => {
                    println!("HARNESS-ERROR: SIMCTL_REAL_BIN is not set (use ./check <ID> --replay <file>)");
                    return 2;
                }
            };
            let dir = format!("{}/sim/target/fidelity-replay", verif_home());
            let mut outs: Vec<(bool, Vec<u8>, Option<i32>)> = Vec::new();
            for k in 0..6 {
                if let Some(r) = crate::fidelity::real_run_env(&case.scn, &bin, &dir, &format!("re{}", k), Duration::from_secs(60), k % 2 == 1) {
                    outs.push((k % 2 == 1, r.stdout, r.code));
                }
            }
            let a: std::collections::BTreeSet<(&Vec<u8>, &Option<i32>)> = outs.iter().filter(|o| !o.0).map(|o| (&o.1, &o.2)).collect();
            let b: std::collections::BTreeSet<(&Vec<u8>, &Option<i32>)> = outs.iter().filter(|o| o.0).map(|o| (&o.1, &o.2)).collect();
            println!("3 executions of the real binary in each of two process environments: {} / {} different results inside an environment", a.len(), b.len());
            if a.len() == 1 && b.len() == 1 && a != b {
                println!("the two environments give different output for the same file and input");
                println!("VIOLATION property={} replay={}", case.property, path);
                return 1;
            }
            if a.len() > 1 || b.len() > 1 {
                println!("the output differs from execution to execution");
                println!("VIOLATION property={} replay={}", case.property, path);
                return 1;
            }
            println!("no violation reproduced");
            return 0;
        }
        if case.expect.as_ref().map(|e| e.class.ends_with("real_binary_not_reproducible")).unwrap_or(false) {
            // executed by the real binary several times: same file, same input
            let bin = match crate::fidelity::real_bin() {
                Some(b) => b,
                None => {
                    println!("HARNESS-ERROR: SIMCTL_REAL_BIN is not set (use ./check <ID> --replay <file>)");
                    return 2;
                }
            };
            let dir = format!("{}/sim/target/fidelity-replay", verif_home());
            let mut outs = Vec::new();
            for k in 0..12 {
                if let Some(r) = crate::fidelity::real_run(&case.scn, &bin, &dir, &format!("r{}", k), Duration::from_secs(20)) {
                    outs.push((r.stdout, r.code));
                }
            }
            let distinct: std::collections::BTreeSet<&(Vec<u8>, Option<i32>)> = outs.iter().collect();
            println!("{} executions of the real binary on the same file and input gave {} different results", outs.len(), distinct.len());
            if distinct.len() > 1 {
                println!("VIOLATION property={} replay={}", case.property, path);
                return 1;
            }
            println!("no violation reproduced");
            return 0;
        }
        let ex = crate::dispatch::execute(&case);
        if dump {
            for l in summarise_history(&ex.h, 100000) {
                println!("{}", l);
            }
        }
        match crate::dispatch::judge(&case, &ex) {
            Err(e) => {
                println!("HARNESS-ERROR: {}", e);
                2
            }
            Ok(v) => {
                let want = case.expect.as_ref().map(|e| e.class.clone());
                for x in &v {
                    println!("violation class={}\n  {}", x.class, x.message);
                }
                let digest = format!("{:016x}", ex.h.digest());
                if let Some(e) = &case.expect {
                    if !e.digest.is_empty() {
                        println!("history digest {} (recorded {})", digest, e.digest);
                    }
                }
                let hit = match &want {
                    Some(w) => v.iter().any(|x| &x.class == w),
                    None => !v.is_empty(),
                };
                if hit {
                    println!("VIOLATION property={} replay={}", case.property, path);
                    1
                } else if !v.is_empty() {
                    println!("a different violation than the recorded one was reproduced");
                    println!("VIOLATION property={} replay={}", case.property, path);
                    1
                } else {
                    println!("no violation reproduced");
                    0
                }
            }
        }
    })
    .unwrap()
    .join()
    .unwrap_or(2)
}

pub fn gen_main(args: &[String]) -> i32 {
    // gen <PROP> <seed> <n>: why does the assembler reject generated programs?
    let prop = args[0].clone();
    let seed: u64 = args[1].parse().unwrap();
    let n: u64 = args[2].parse().unwrap();
    std::thread::Builder::new()
        .stack_size(64 << 20)
        .spawn(move || {
            std::env::set_var("SIM_GEN_DEBUG", "1");
            let mut st = Stats::default();
            for i in 0..n {
                let _ = crate::dispatch::make_case(&prop, seed, i, &mut st);
            }
            println!("rejects {} failed {}", st.gen_rejects, st.gen_failed);
            0
        })
        .unwrap()
        .join()
        .unwrap_or(2)
}

pub fn one_main(args: &[String]) -> i32 {
    if args.len() < 3 {
        eprintln!("one <PROP> <seed> <run> [--dump] [--case]");
        return 2;
    }
    let prop = args[0].clone();
    let seed: u64 = args[1].parse().unwrap();
    let run: u64 = args[2].parse().unwrap();
    let dump = args.iter().any(|a| a == "--dump");
    let show_case = args.iter().any(|a| a == "--case");
    std::thread::Builder::new()
        .stack_size(64 << 20)
        .spawn(move || {
            let mut st = Stats::default();
            let case = match crate::dispatch::make_case(&prop, seed, run, &mut st) {
                Some(c) => c,
                None => {
                    println!("generator gave up (rejects {})", st.gen_rejects);
                    return 0;
                }
            };
            if show_case {
                println!("{}", serde_json::to_string_pretty(&case).unwrap());
            } else {
                println!("--- source ({} / {:?})\n{}", case.config, case.faults, String::from_utf8_lossy(&case.scn.source.0));
                println!("--- stdin\n{:?}", String::from_utf8_lossy(&case.scn.stdin.bytes.0));
            }
            let ex = crate::dispatch::execute(&case);
            if dump {
                for l in summarise_history(&ex.h, 100000) {
                    println!("{}", l);
                }
            }
            match crate::dispatch::judge(&case, &ex) {
                Err(e) => {
                    println!("HARNESS-ERROR: {}", e);
                    2
                }
                Ok(v) => {
                    for x in &v {
                        println!("violation class={}\n  {}", x.class, x.message);
                    }
                    if v.is_empty() {
                        0
                    } else {
                        1
                    }
                }
            }
        })
        .unwrap()
        .join()
        .unwrap_or(2)
}
