//! Workload generator: 8086 assembly programs rendered from a small item list, with the
//! bookkeeping the oracles need (which source line produced which emitted instruction).
//! Everything is drawn from the run's PRNG at generation time; nothing here runs during
//! the execution phase.
use crate::rng::Rng;
use crate::scenario::GenInfo;

#[derive(Clone, Debug)]
pub struct SrcLine {
    /// text of the line without newline (comment included)
    pub text: String,
    /// text of the same line in the reference variant (stepping sources neutralised)
    pub ref_text: String,
    /// classes of the instructions this line emits, in order
    pub emits: Vec<&'static str>,
    /// same for the reference variant
    pub ref_emits: Vec<&'static str>,
}

#[derive(Clone, Debug, Default)]
pub struct Program {
    pub lines: Vec<SrcLine>,
    pub final_newline: bool,
    pub crlf: bool,
    pub tags: Vec<String>,
    /// number of service input lines this program may ask for (upper bound, for script sizing)
    pub svc_reads: usize,
}

impl Program {
    fn eol(&self) -> &'static str {
        if self.crlf {
            "\r\n"
        } else {
            "\n"
        }
    }
    pub fn render(&self) -> String {
        self.render_with(false)
    }
    pub fn render_ref(&self) -> String {
        self.render_with(true)
    }
    fn render_with(&self, reference: bool) -> String {
        let mut s = String::new();
        let n = self.lines.len();
        for (i, l) in self.lines.iter().enumerate() {
            s.push_str(if reference { &l.ref_text } else { &l.text });
            if i + 1 < n || self.final_newline {
                s.push_str(self.eol());
            }
        }
        s
    }
    pub fn info(&self) -> GenInfo {
        self.info_with(false)
    }
    pub fn info_ref(&self) -> GenInfo {
        self.info_with(true)
    }
    fn info_with(&self, reference: bool) -> GenInfo {
        let mut g = GenInfo::default();
        let mut start_idx = None;
        for (i, l) in self.lines.iter().enumerate() {
            let text = if reference { &l.ref_text } else { &l.text };
            if start_idx.is_none() && has_start_label(text) {
                start_idx = Some(g.idx_line.len());
            }
            for c in if reference { &l.ref_emits } else { &l.emits } {
                g.idx_line.push(i + 1);
                g.idx_class.push((*c).to_string());
            }
        }
        g.start_idx = start_idx.unwrap_or(0);
        g.tags = self.tags.clone();
        g
    }
}

impl Program {
    pub fn to_ser(&self) -> crate::case::ProgramSer {
        crate::case::ProgramSer {
            lines: self
                .lines
                .iter()
                .map(|l| crate::case::ProgLine {
                    text: l.text.clone(),
                    ref_text: l.ref_text.clone(),
                    emits: l.emits.iter().map(|s| s.to_string()).collect(),
                    ref_emits: l.ref_emits.iter().map(|s| s.to_string()).collect(),
                })
                .collect(),
            final_newline: self.final_newline,
            crlf: self.crlf,
            tags: self.tags.clone(),
        }
    }
}

impl crate::case::ProgramSer {
    pub fn render(&self, reference: bool) -> String {
        let eol = if self.crlf { "\r\n" } else { "\n" };
        let mut s = String::new();
        let n = self.lines.len();
        for (i, l) in self.lines.iter().enumerate() {
            s.push_str(if reference { &l.ref_text } else { &l.text });
            if i + 1 < n || self.final_newline {
                s.push_str(eol);
            }
        }
        s
    }
    pub fn info(&self, reference: bool) -> GenInfo {
        let mut g = GenInfo::default();
        let mut start_idx = None;
        for (i, l) in self.lines.iter().enumerate() {
            let text = if reference { &l.ref_text } else { &l.text };
            if start_idx.is_none() && has_start_label(text) {
                start_idx = Some(g.idx_line.len());
            }
            for c in if reference { &l.ref_emits } else { &l.emits } {
                g.idx_line.push(i + 1);
                g.idx_class.push(c.clone());
            }
        }
        g.start_idx = start_idx.unwrap_or(0);
        g.tags = self.tags.clone();
        g
    }
}

fn has_start_label(text: &str) -> bool {
    let t = match text.find(';') {
        Some(p) => &text[..p],
        None => text,
    };
    t.trim_start().starts_with("start:")
}

#[derive(Clone, Debug)]
pub struct Feat {
    pub data: bool,
    pub macros: bool,
    pub procs: bool,
    pub loops: bool,
    pub jumps: bool,
    pub rep: bool,
    pub prints: bool,
    pub int3: bool,
    pub int10: bool,
    pub int21: bool,
    pub stack: bool,
    pub memops: bool,
    /// TF set through push/popf at the start (and cleared again before the end)
    pub tf: bool,
    pub div0: bool,
    pub hlt: bool,
    /// bias INT / print operands to the edges the properties name
    pub edges: bool,
    /// unsupported AH values
    pub bad_ah: bool,
    /// `print flags` / pushf images allowed while the program has TF set (not for sessions that
    /// are compared with a reference variant whose TF stays clear)
    pub flags_under_tf: bool,
    /// the wider instruction repertoire (shifts, rotates, multiply / divide, lea, xlat, single
    /// string instructions in both directions, memory operands of every kind, segment overrides,
    /// decimal adjusts, signed conditions, loope / loopne, jcxz)
    pub wide: bool,
}

impl Feat {
    pub fn none() -> Feat {
        Feat {
            data: false,
            macros: false,
            procs: false,
            loops: false,
            jumps: false,
            rep: false,
            prints: false,
            int3: false,
            int10: false,
            int21: false,
            stack: false,
            memops: false,
            tf: false,
            div0: false,
            hlt: false,
            edges: false,
            bad_ah: false,
            flags_under_tf: false,
            wide: false,
        }
    }
    /// swarm: each feature on with probability pct
    pub fn swarm(r: &mut Rng, pct: u64) -> Feat {
        Feat {
            data: r.chance(pct),
            macros: r.chance(pct),
            procs: r.chance(pct),
            loops: r.chance(pct),
            jumps: r.chance(pct),
            rep: r.chance(pct),
            prints: r.chance(pct),
            int3: r.chance(pct),
            int10: r.chance(pct),
            int21: r.chance(pct),
            stack: r.chance(pct),
            memops: r.chance(pct),
            tf: false,
            div0: r.chance(pct / 4),
            hlt: r.chance(pct / 2),
            edges: r.chance(pct),
            bad_ah: r.chance(pct / 5),
            flags_under_tf: false,
            wide: r.chance(pct),
        }
    }
}

#[derive(Clone, Debug)]
pub struct Layout {
    pub comment_pct: u64,
    pub blank_pct: u64,
    pub upper_pct: u64,
    /// two items on one source line
    pub multi_pct: u64,
    /// one instruction spread over two lines
    pub split_pct: u64,
    pub indent_pct: u64,
    pub final_newline: bool,
    pub crlf: bool,
    /// indentation / trailing blanks made of U+00A0 or U+2003 (white space to the lexer)
    pub nbsp_pct: u64,
}

impl Layout {
    pub fn plain() -> Layout {
        Layout {
            comment_pct: 0,
            blank_pct: 0,
            upper_pct: 0,
            multi_pct: 0,
            split_pct: 0,
            indent_pct: 0,
            final_newline: true,
            crlf: false,
            nbsp_pct: 0,
        }
    }
    pub fn swarm(r: &mut Rng) -> Layout {
        let z = |r: &mut Rng, hi: u64| if r.chance(50) { 0 } else { r.range(1, hi) };
        Layout {
            comment_pct: z(r, 50),
            blank_pct: z(r, 30),
            upper_pct: if r.chance(30) { 100 } else { z(r, 60) },
            multi_pct: z(r, 20),
            split_pct: z(r, 15),
            indent_pct: z(r, 60),
            final_newline: !r.chance(25),
            crlf: r.chance(8),
            nbsp_pct: if r.chance(12) { r.range(5, 40) } else { 0 },
        }
    }
}

#[derive(Clone, Debug)]
pub struct GenCfg {
    pub feat: Feat,
    pub layout: Layout,
    pub body_lo: usize,
    pub body_hi: usize,
}

const BYTE_REGS: [&str; 8] = ["al", "ah", "bl", "bh", "cl", "ch", "dl", "dh"];
const WORD_REGS: [&str; 7] = ["ax", "bx", "cx", "dx", "si", "di", "bp"];

struct G<'a> {
    r: &'a mut Rng,
    cfg: &'a GenCfg,
    lines: Vec<SrcLine>,
    n_label: usize,
    procs: Vec<String>,
    /// name, n_params, classes of the emitted instructions, same for the reference variant
    macros: Vec<(String, usize, Vec<&'static str>, Vec<&'static str>)>,
    data_labels: Vec<(String, bool)>,    // name, is_word
    tags: Vec<String>,
    svc_reads: usize,
    /// cx is in use as a loop counter
    cx_busy: bool,
    /// TF may currently be set by the program (avoid flag-image leaks into output)
    tf_on: bool,
    depth: usize,
}

fn is_user_ident(w: &str) -> bool {
    w.starts_with("L_")
        || w.starts_with("p_")
        || w.starts_with("m_")
        || w.starts_with("d_")
        || w.starts_with("a_")
        || w == "start"
}

/// upper-case every keyword / register / number, leave user identifiers and strings alone
pub fn upcase_keywords(text: &str) -> String {
    let mut out = String::with_capacity(text.len());
    let mut word = String::new();
    let mut in_str = false;
    let flush = |word: &mut String, out: &mut String| {
        if !word.is_empty() {
            if is_user_ident(word) {
                out.push_str(word);
            } else {
                out.push_str(&word.to_ascii_uppercase());
            }
            word.clear();
        }
    };
    for ch in text.chars() {
        if in_str {
            out.push(ch);
            if ch == '"' {
                in_str = false;
            }
            continue;
        }
        if ch.is_ascii_alphanumeric() || ch == '_' {
            word.push(ch);
        } else {
            flush(&mut word, &mut out);
            if ch == '"' {
                in_str = true;
            }
            out.push(ch);
        }
    }
    flush(&mut word, &mut out);
    out
}

impl<'a> G<'a> {
    fn tag(&mut self, t: &str) {
        if !self.tags.iter().any(|x| x == t) {
            self.tags.push(t.to_owned());
        }
    }

    fn num16(&mut self, v: u16) -> String {
        match self.r.below(4) {
            0 => format!("{}", v),
            1 => format!("0x{:x}", v),
            2 => format!("0x{:04X}", v),
            _ => {
                if v < 256 {
                    format!("0b{:b}", v)
                } else {
                    format!("{}", v)
                }
            }
        }
    }

    /// indentation prefix and trailing blank/comment suffix of one line
    fn deco(&mut self) -> (String, String) {
        let mut pre = String::new();
        let mut suf = String::new();
        if self.r.chance(self.cfg.layout.indent_pct) {
            let n = self.r.urange(1, 6);
            pre = if self.r.chance(20) { "\t".to_owned() } else { " ".repeat(n) };
        }
        if self.r.chance(self.cfg.layout.nbsp_pct) {
            // what a word processor or a web page leaves behind: still white space to the lexer
            let sp = *self.r.pick(&["\u{a0}", "\u{2003}", "\u{a0}\u{a0}"]);
            if self.r.chance(50) {
                pre.push_str(sp);
            } else {
                suf.push_str(sp);
            }
            self.tag("non_ascii_blanks");
        }
        if self.r.chance(self.cfg.layout.comment_pct) {
            suf.push_str(*self.r.pick(&[
                " ; comment",
                ";x",
                "      ; move, add: go",
                " ;",
                " ; start: int 3 print reg",
                "\t; 0x10 and more",
            ]));
        } else if self.r.chance(10) {
            suf.push_str("   ");
        }
        (pre, suf)
    }

    /// one source line; `emits`/`ref_emits` as given; ref text defaults to the same text
    fn line_full(
        &mut self,
        text: &str,
        ref_text: Option<&str>,
        emits: Vec<&'static str>,
        ref_emits: Vec<&'static str>,
    ) {
        let (pre, suf) = self.deco();
        let (t, rt) = if self.r.chance(self.cfg.layout.upper_pct) {
            (upcase_keywords(text), ref_text.map(upcase_keywords))
        } else {
            (text.to_owned(), ref_text.map(|s| s.to_owned()))
        };
        let rt = rt.unwrap_or_else(|| t.clone());
        self.lines.push(SrcLine {
            text: format!("{}{}{}", pre, t, suf),
            ref_text: format!("{}{}{}", pre, rt, suf),
            emits,
            ref_emits,
        });
        if self.r.chance(self.cfg.layout.blank_pct) {
            let b = *self.r.pick(&["", "   ", "; only a comment", "\t"]);
            self.lines.push(SrcLine {
                text: b.to_owned(),
                ref_text: b.to_owned(),
                emits: vec![],
                ref_emits: vec![],
            });
        }
    }

    fn raw(&mut self, text: &str) {
        self.line_full(text, None, vec![], vec![]);
    }

    /// an instruction line emitting exactly one instruction of class `class`
    fn ins(&mut self, text: &str, class: &'static str) {
        // split over two lines at the first ", " ?
        if self.r.chance(self.cfg.layout.split_pct) {
            if let Some(p) = text.find(", ") {
                let (a, b) = text.split_at(p + 1);
                self.line_full(a, None, vec![class], vec![class]);
                self.line_full(b.trim_start(), None, vec![], vec![]);
                self.tag("split_line");
                return;
            }
        }
        // two instructions on one line?
        if self.r.chance(self.cfg.layout.multi_pct) {
            let filler = *self.r.pick(&["cld", "clc", "stc", "cmc", "sti"]);
            let t = format!("{}  {}", text, filler);
            self.line_full(&t, None, vec![class, "plain"], vec![class, "plain"]);
            self.tag("multi_per_line");
            return;
        }
        self.line_full(text, None, vec![class], vec![class]);
    }

    fn label(&mut self) -> String {
        self.n_label += 1;
        format!("L_{}", self.n_label)
    }

    fn breg(&mut self) -> &'static str {
        loop {
            let x = *self.r.pick(&BYTE_REGS);
            if self.cx_busy && (x == "cl" || x == "ch") {
                continue;
            }
            return x;
        }
    }
    fn wreg(&mut self) -> &'static str {
        loop {
            let x = *self.r.pick(&WORD_REGS);
            if self.cx_busy && x == "cx" {
                continue;
            }
            return x;
        }
    }

    fn imm8(&mut self) -> String {
        let v = match self.r.below(5) {
            0 => 0,
            1 => 0xff,
            2 => 0x80,
            _ => self.r.below(256) as u16,
        };
        self.num16(v)
    }
    fn imm16(&mut self) -> String {
        let v = match self.r.below(6) {
            0 => 0,
            1 => 0xffff,
            2 => 0x8000,
            3 => self.r.below(256) as u16,
            _ => self.r.below(65536) as u16,
        };
        self.num16(v)
    }

    /// a memory operand that stays away from nothing in particular (wraps are the emulator's job)
    fn memop(&mut self) -> String {
        match self.r.below(6) {
            0 => format!("[{}]", self.imm16()),
            1 => "[bx]".to_owned(),
            2 => "[si]".to_owned(),
            3 => format!("[bx, {}]", self.r.below(64)),
            4 => format!("[di, {}]", self.r.below(64)),
            _ => format!("[bx, si, {}]", self.r.below(16)),
        }
    }

    fn plain(&mut self) {
        if self.cfg.feat.memops && self.cfg.feat.edges && self.r.chance(6) {
            // move the data segment, sometimes to the very top of the address space
            let v = *self.r.pick(&[0u16, 0xFFFF, 0x1000, 0xFFF0, 1, 0x12AB]);
            // mostly the data segment; the other three now and then (instructions are fetched by
            // index here, so a program may even move CS)
            let seg = *self.r.pick(&["ds", "ds", "ds", "es", "ss", "cs"]);
            if seg == "ss" && self.depth > 0 {
                self.set_seg("ds", v);
            } else {
                self.set_seg(seg, v);
            }
            self.tag(if seg == "ds" { "ds_changed" } else { "other_segment_changed" });
            return;
        }
        if self.cfg.feat.memops && self.cfg.feat.edges && self.r.chance(4) {
            // segment * 16 + offset = exactly 0x100000, one below, one above
            self.set_seg("ds", 0xFFFF);
            let off = *self.r.pick(&[15u16, 16, 17]);
            match self.r.below(4) {
                0 => self.ins(&format!("mov byte [{}], al", off), "plain"),
                1 => self.ins(&format!("mov word [{}], ax", off), "plain"),
                2 => self.ins(&format!("mov al, byte [{}]", off), "plain"),
                _ => self.ins(&format!("mov ax, word [{}]", off), "plain"),
            }
            self.tag("access_at_exactly_1mb");
            return;
        }
        if self.cfg.feat.wide && self.r.chance(35) {
            return self.wide();
        }
        let k = self.r.below(14);
        match k {
            0 => {
                let (a, b) = (self.wreg(), self.imm16());
                self.ins(&format!("mov {}, {}", a, b), "plain")
            }
            1 => {
                let (a, b) = (self.breg(), self.imm8());
                self.ins(&format!("mov {}, {}", a, b), "plain")
            }
            2 => {
                let (a, b) = (self.wreg(), self.wreg());
                self.ins(&format!("mov {}, {}", a, b), "plain")
            }
            3 => {
                let op = *self.r.pick(&["add", "sub", "adc", "sbb", "cmp"]);
                let (a, b) = (self.wreg(), self.imm16());
                self.ins(&format!("{} {}, {}", op, a, b), "plain")
            }
            4 => {
                let op = *self.r.pick(&["add", "sub", "cmp"]);
                let (a, b) = (self.breg(), self.breg());
                self.ins(&format!("{} {}, {}", op, a, b), "plain")
            }
            5 => {
                let op = *self.r.pick(&["and", "or", "xor", "test"]);
                let (a, b) = (self.wreg(), self.imm16());
                self.ins(&format!("{} {}, {}", op, a, b), "plain")
            }
            6 => {
                let op = *self.r.pick(&["inc", "dec", "neg", "not"]);
                let a = if self.r.chance(50) { self.wreg() } else { self.breg() };
                self.ins(&format!("{} {}", op, a), "plain")
            }
            7 => {
                let (a, b) = (self.wreg(), self.wreg());
                self.ins(&format!("xchg {}, {}", a, b), "plain")
            }
            8 => {
                let op = *self.r.pick(&["stc", "clc", "cmc", "cld", "sti", "cli", "cbw", "cwd", "lahf"]);
                self.ins(op, "plain")
            }
            9 if self.cfg.feat.memops => {
                let m = self.memop();
                let a = self.breg();
                self.ins(&format!("mov byte {}, {}", m, a), "plain")
            }
            10 if self.cfg.feat.memops => {
                let m = self.memop();
                let a = self.wreg();
                self.ins(&format!("mov word {}, {}", m, a), "plain")
            }
            11 if self.cfg.feat.memops => {
                let m = self.memop();
                let a = self.wreg();
                self.ins(&format!("mov {}, word {}", a, m), "plain")
            }
            12 if self.cfg.feat.memops => {
                let m = self.memop();
                let v = self.imm8();
                self.ins(&format!("mov byte {}, {}", m, v), "plain")
            }
            13 if !self.data_labels.is_empty() => {
                let (n, w) = self.r.pick(&self.data_labels).clone();
                if w {
                    let a = self.wreg();
                    if self.r.chance(50) {
                        self.ins(&format!("mov {}, word {}", a, n), "plain")
                    } else {
                        self.ins(&format!("mov word {}, {}", n, a), "plain")
                    }
                } else {
                    let a = self.breg();
                    if self.r.chance(50) {
                        self.ins(&format!("mov {}, byte {}", a, n), "plain")
                    } else {
                        self.ins(&format!("add byte {}, {}", n, a), "plain")
                    }
                }
            }
            _ => {
                let (a, b) = (self.wreg(), self.imm16());
                self.ins(&format!("mov {}, {}", a, b), "plain")
            }
        }
    }

    /// a memory operand with an explicit segment register in front now and then
    fn memop_seg(&mut self) -> String {
        let m = match self.r.below(8) {
            0 => format!("[{}]", self.imm16()),
            1 => "[bx]".to_owned(),
            2 => "[si]".to_owned(),
            3 => "[di]".to_owned(),
            4 => "[bp]".to_owned(),
            5 => format!("[bp, {}]", self.r.below(64)),
            6 => format!("[bp, di, {}]", self.r.below(16)),
            _ => format!("[bx, si, {}]", self.r.below(16)),
        };
        if self.r.chance(35) {
            format!("{}{}", self.r.pick(&["es", "ss", "ds", "cs"]), m)
        } else {
            m
        }
    }

    /// the wider repertoire: nothing here is judged for its result (what an instruction should
    /// compute belongs to properties that are not claimed); it is workload for the relations
    /// between runs and for the absolute oracles on what the console shows
    fn wide(&mut self) {
        self.tag("wide_repertoire");
        match self.r.below(16) {
            0 => {
                let op = *self.r.pick(&["sal", "shl", "sar", "shr", "rol", "ror", "rcl", "rcr"]);
                let a = if self.r.chance(50) { self.wreg() } else { self.breg() };
                let n = *self.r.pick(&[0u16, 1, 1, 1, 2, 3, 7, 8, 9, 15, 16, 17, 31, 32, 33, 255]);
                self.ins(&format!("{} {}, {}", op, a, n), "plain")
            }
            1 if !self.cx_busy => {
                let op = *self.r.pick(&["sal", "shl", "sar", "shr", "rol", "ror", "rcl", "rcr"]);
                let n = *self.r.pick(&[0u16, 1, 4, 7, 8, 9, 16, 17, 200]);
                let sn = self.num16(n);
                self.ins(&format!("mov cl, {}", sn), "plain");
                if self.r.chance(50) {
                    let a = if self.r.chance(50) { self.wreg() } else { self.breg() };
                    self.ins(&format!("{} {}, cl", op, a), "plain")
                } else {
                    let w = *self.r.pick(&["byte", "word"]);
                    let m = self.memop_seg();
                    self.ins(&format!("{} {} {}, cl", op, w, m), "plain")
                }
            }
            2 => {
                let op = *self.r.pick(&["mul", "imul"]);
                match self.r.below(3) {
                    0 => {
                        let a = self.wreg();
                        self.ins(&format!("{} {}", op, a), "muldiv")
                    }
                    1 => {
                        let a = self.breg();
                        self.ins(&format!("{} {}", op, a), "muldiv")
                    }
                    _ => {
                        let w = *self.r.pick(&["byte", "word"]);
                        let m = self.memop_seg();
                        self.ins(&format!("{} {} {}", op, w, m), "muldiv")
                    }
                }
            }
            3 => {
                // a division that usually fits; one in ten is left to chance (it may end the run
                // in the divide error, which is an ordinary way for a program to end)
                let op = *self.r.pick(&["div", "idiv"]);
                if self.r.chance(50) {
                    if !self.r.chance(10) {
                        let v = self.r.below(0x0800) as u16;
                        let sv = self.num16(v);
                        self.ins(&format!("mov ax, {}", sv), "plain");
                        let d = 0x20 + self.r.below(0x50) as u16;
                        let sd = self.num16(d);
                        self.ins(&format!("mov bl, {}", sd), "plain");
                    }
                    self.ins(&format!("{} bl", op), "muldiv")
                } else {
                    if !self.r.chance(10) {
                        let v = self.r.below(0x0100) as u16;
                        let sv = self.num16(v);
                        self.ins(&format!("mov dx, {}", sv), "plain");
                        let d = 0x0200 + self.r.below(0x7000) as u16;
                        let sd = self.num16(d);
                        self.ins(&format!("mov bx, {}", sd), "plain");
                    }
                    self.ins(&format!("{} bx", op), "muldiv")
                }
            }
            4 => {
                let a = self.wreg();
                let m = self.memop_seg();
                self.ins(&format!("lea {}, word {}", a, m), "plain")
            }
            5 => self.ins("xlat", "plain"),
            6 => {
                if self.r.chance(40) {
                    let d = *self.r.pick(&["std", "cld"]);
                    self.ins(d, "plain");
                }
                let op = *self.r.pick(&["movs", "stos", "lods", "cmps", "scas"]);
                let w = *self.r.pick(&["byte", "word"]);
                self.ins(&format!("{} {}", op, w), "string")
            }
            7 => {
                // (`push word [bx]` / `pop word [bx]` are not generated: the assembler emits them
                // in a form the instruction reader rejects - an "Internal Error" report, a
                // disagreement between the two grammars that is not ours to judge)
                let sr = *self.r.pick(&["es", "ds", "ss", "cs"]);
                self.ins(&format!("push {}", sr), "stack");
                // (this may sit in a procedure body, generated before the trap flag is switched on)
                if self.r.chance(50) && (!self.cfg.feat.tf || self.cfg.feat.flags_under_tf) {
                    self.ins("pushf", "stack");
                    let b = self.wreg();
                    self.ins(&format!("pop {}", b), "stack");
                }
                let a = self.wreg();
                self.ins(&format!("pop {}", a), "stack");
            }
            8 => {
                let m = self.memop_seg();
                if self.r.chance(50) {
                    let a = self.wreg();
                    if self.r.chance(50) {
                        self.ins(&format!("xchg {}, word {}", a, m), "plain")
                    } else {
                        self.ins(&format!("xchg word {}, {}", m, a), "plain")
                    }
                } else {
                    let a = self.breg();
                    if self.r.chance(50) {
                        self.ins(&format!("xchg {}, byte {}", a, m), "plain")
                    } else {
                        self.ins(&format!("xchg byte {}, {}", m, a), "plain")
                    }
                }
            }
            9 => {
                let op = *self.r.pick(&["aaa", "aas", "daa", "das", "aam", "aad", "sahf", "lahf", "cbw", "cwd", "std", "cld", "cmc"]);
                self.ins(op, "plain")
            }
            10 => {
                let m = self.memop_seg();
                let op = *self.r.pick(&["add", "adc", "sub", "sbb", "cmp", "and", "or", "xor", "test"]);
                match self.r.below(4) {
                    0 => {
                        let a = self.wreg();
                        self.ins(&format!("{} word {}, {}", op, m, a), "plain")
                    }
                    1 => {
                        let a = self.breg();
                        self.ins(&format!("{} {}, byte {}", op, a, m), "plain")
                    }
                    2 => {
                        let v = self.imm16();
                        self.ins(&format!("{} word {}, {}", op, m, v), "plain")
                    }
                    _ => {
                        let v = self.imm8();
                        self.ins(&format!("{} byte {}, {}", op, m, v), "plain")
                    }
                }
            }
            11 => {
                let m = self.memop_seg();
                let op = *self.r.pick(&["inc", "dec", "neg", "not"]);
                let w = *self.r.pick(&["byte", "word"]);
                self.ins(&format!("{} {} {}", op, w, m), "plain")
            }
            12 => {
                let m = self.memop_seg();
                let op = *self.r.pick(&["sal", "shl", "sar", "shr", "rol", "ror", "rcl", "rcr"]);
                let w = *self.r.pick(&["byte", "word"]);
                let n = *self.r.pick(&[0u16, 1, 1, 2, 7, 8, 9, 15, 16, 17]);
                self.ins(&format!("{} {} {}, {}", op, w, m, n), "plain")
            }
            13 => {
                // segment registers through memory and the stack
                let m = self.memop_seg();
                match self.r.below(4) {
                    0 => {
                        let sr = *self.r.pick(&["es", "ds", "ss", "cs"]);
                        self.ins(&format!("mov word {}, {}", m, sr), "plain")
                    }
                    1 => {
                        let sr = *self.r.pick(&["es", "ds"]);
                        self.ins(&format!("mov {}, word {}", sr, m), "plain")
                    }
                    2 => {
                        let sr = *self.r.pick(&["es", "ds", "ss", "cs"]);
                        let a = self.wreg();
                        self.ins(&format!("push {}", sr), "stack");
                        self.ins(&format!("pop {}", a), "stack");
                    }
                    _ => {
                        let sr = *self.r.pick(&["es", "ds", "ss", "cs"]);
                        let a = self.wreg();
                        self.ins(&format!("mov {}, {}", a, sr), "plain")
                    }
                }
            }
            14 if self.cfg.feat.jumps && self.depth < 3 => {
                // signed / parity / overflow conditions and jcxz over a short block
                let l = self.label();
                let (a, b) = (self.wreg(), self.imm16());
                let op = *self.r.pick(&["cmp", "sub", "add", "test"]);
                self.ins(&format!("{} {}, {}", op, a, b), "plain");
                let j = *self.r.pick(&[
                    "jg", "jnle", "jge", "jnl", "jl", "jnge", "jle", "jng", "jo", "jno", "jp", "jpe", "jnp", "jpo",
                    "jae", "jnb", "jbe", "jnae", "jnbe", "jcxz", // not `jna`: accepted by the assembler, unknown to the instruction reader
                ]);
                self.ins(&format!("{} {}", j, l), "jump");
                self.depth += 1;
                let k = self.r.urange(1, 2);
                for _ in 0..k {
                    self.plain();
                }
                self.depth -= 1;
                self.raw(&format!("{}:", l));
            }
            15 if self.cfg.feat.loops && self.depth < 2 && !self.cx_busy => {
                // loope / loopne: the trip count depends on ZF as well as on CX, never above CX
                let l = self.label();
                let n = self.r.range(1, 4) as u16;
                let s = self.num16(n);
                self.ins(&format!("mov cx, {}", s), "plain");
                self.raw(&format!("{}:", l));
                self.cx_busy = true;
                self.depth += 1;
                self.plain();
                let (a, b) = (self.wreg(), self.imm16());
                self.ins(&format!("cmp {}, {}", a, b), "plain");
                self.depth -= 1;
                self.cx_busy = false;
                let op = *self.r.pick(&["loope", "loopz", "loopne", "loopnz"]);
                self.ins(&format!("{} {}", op, l), "jump");
            }
            _ => {
                let a = self.wreg();
                let m = self.memop_seg();
                self.ins(&format!("mov {}, word {}", a, m), "plain")
            }
        }
    }

    fn print_stmt(&mut self) {
        let edges = self.cfg.feat.edges;
        let k = self.r.below(if self.tf_on && !self.cfg.feat.flags_under_tf { 4 } else { 5 });
        match k {
            0 => self.ins("print reg", "print"),
            1 => {
                // a -> b
                let a = self.addr(edges);
                let len = self.len(edges);
                let b = if self.r.chance(8) && a > 0 {
                    self.tag("print_backwards");
                    a - 1 - self.r.below(a.min(20) as u64) as u32
                } else {
                    (a + len).min(0xFFFFF)
                };
                let (sa, sb) = (self.num20(a), self.num20(b));
                self.ins(&format!("print mem {} -> {}", sa, sb), "print")
            }
            2 => {
                // a : n   (preprocessor rejects a+n >= 1 MiB, so stay inside)
                let a = self.addr(edges);
                let n = self.len(edges).min(0xFFFFF - a);
                let (sa, sn) = (self.num20(a), self.num20(n));
                self.ins(&format!("print mem {} : {}", sa, sn), "print")
            }
            3 => {
                // : n   relative to DS
                let n = self.len(edges);
                let sn = self.num20(n);
                self.ins(&format!("print mem : {}", sn), "print")
            }
            _ => self.ins("print flags", "print"),
        }
        self.tag("print_stmt");
    }

    fn addr(&mut self, edges: bool) -> u32 {
        if edges && self.r.chance(40) {
            *self.r.pick(&[0u32, 0xFFFFF, 0xFFFF0, 0xFFFEF, 0x10000, 0xFFFF, 0xFFFE0])
        } else if self.r.chance(60) {
            self.r.below(0x200) as u32
        } else {
            self.r.below(0x100000) as u32
        }
    }
    fn len(&mut self, edges: bool) -> u32 {
        if edges && self.r.chance(60) {
            *self.r.pick(&[0u32, 1, 15, 16, 17, 31, 32, 33])
        } else {
            self.r.below(70) as u32
        }
    }
    /// a 20-bit constant in any radix; sometimes beyond 2^20 (wraps mod 2^20 by definition)
    fn num20(&mut self, v: u32) -> String {
        let v = if self.r.chance(6) {
            self.tag("const_beyond_1mb");
            v + 0x100000 * self.r.range(1, 3) as u32
        } else {
            v
        };
        match self.r.below(4) {
            0 | 1 => format!("{}", v),
            2 => format!("0x{:X}", v),
            _ => {
                if v < 4096 {
                    format!("0b{:b}", v)
                } else {
                    format!("0x{:x}", v)
                }
            }
        }
    }

    fn set_seg(&mut self, seg: &str, v: u16) {
        let s = self.num16(v);
        self.ins(&format!("mov bx, {}", s), "plain");
        self.ins(&format!("mov {}, bx", seg), "plain");
    }

    fn int10(&mut self) {
        let edges = self.cfg.feat.edges;
        if self.cfg.feat.bad_ah && self.r.chance(15) {
            let ah = loop {
                let a = self.r.below(256) as u16;
                if a != 0x0a && a != 0x13 {
                    break a;
                }
            };
            let s = self.num16(ah);
            self.ins(&format!("mov ah, {}", s), "plain");
            self.ins("int 0x10", "int10");
            self.tag("bad_ah");
            return;
        }
        if self.r.chance(50) {
            // AH=0Ah: char AL, CX times
            let cx = if edges && self.r.chance(30) { *self.r.pick(&[0u16, 1, 80]) } else { self.r.below(12) as u16 };
            let al = if edges && self.r.chance(25) {
                *self.r.pick(&[0u16, 0x7f, 0x80, 0xff, 0x0a])
            } else {
                self.r.range(0x20, 0x7e) as u16
            };
            let (sal, scx) = (self.num16(al), self.num16(cx));
            self.ins(&format!("mov al, {}", sal), "plain");
            if !self.cx_busy {
                self.ins(&format!("mov cx, {}", scx), "plain");
            }
            self.ins("mov ah, 0x0a", "plain");
            self.ins("int 0x10", "int10");
            self.tag("int10_0a");
        } else {
            // AH=13h: DL spaces then CX bytes at ES:BP
            if !self.data_labels.is_empty() && self.r.chance(40) {
                let (n, _) = self.r.pick(&self.data_labels).clone();
                self.ins(&format!("mov bp, offset {}", n), "plain");
            } else if edges && self.r.chance(25) {
                // string crossing offset FFFFh: the bytes come from ES*16 + BP + i, linearly; what
                // lies 64 KB lower is made to differ
                let es = *self.r.pick(&[0u16, 0x1000, 0x0FFF]);
                let low = self.r.range(0x21, 0x50) as u16;
                self.set_seg("ds", es);
                for k in 0..4u16 {
                    let v = self.num16(low + k);
                    self.ins(&format!("mov byte [{}], {}", k, v), "plain");
                }
                self.set_seg("ds", es.wrapping_add(0x1000));
                for k in 0..4u16 {
                    let v = self.num16(low + 0x20 + k);
                    self.ins(&format!("mov byte [{}], {}", k, v), "plain");
                }
                self.set_seg("ds", 0);
                self.set_seg("es", es);
                let bp = 0xFFFF - self.r.below(12) as u16;
                let sb = self.num16(bp);
                self.ins(&format!("mov bp, {}", sb), "plain");
                self.tag("int10_13_offset_beyond_64k");
            } else if edges && self.r.chance(50) {
                // string crossing the end of the address space
                self.set_seg("es", 0xFFFF);
                // ES*16+BP may itself lie beyond 1 MB (BP >= 16): it wraps to the bottom of memory
                let bp = if self.r.chance(50) { self.r.range(0, 15) as u16 } else { self.r.range(16, 0x60) as u16 };
                let s = self.num16(bp);
                self.ins(&format!("mov bp, {}", s), "plain");
                self.tag("int10_13_wrap");
            } else {
                let v = self.r.below(0x300) as u16;
                let s = self.num16(v);
                self.ins(&format!("mov bp, {}", s), "plain");
            }
            let mut cx = if edges && self.r.chance(30) { *self.r.pick(&[0u16, 1, 16, 17, 40]) } else { self.r.below(14) as u16 };
            if edges && !self.cx_busy && self.r.chance(8) {
                // a long string with a line end near its start: more than a buffer-full follows the
                // last line end (what a line-buffered stdout takes in one go is less than that)
                let v = 0x100 + self.r.below(0x200) as u16;
                self.set_seg("ds", 0);
                self.set_seg("es", 0);
                let (sv, sn) = (self.num16(v), self.num16(v + 2));
                self.ins(&format!("mov byte [{}], 10", sn), "plain");
                self.ins(&format!("mov bp, {}", sv), "plain");
                cx = *self.r.pick(&[1100u16, 1500, 2100]);
                self.tag("int10_13_long_with_newline");
            }
            let dl = if edges && self.r.chance(30) { *self.r.pick(&[0u16, 1, 79, 255]) } else { self.r.below(6) as u16 };
            let (scx, sdl) = (self.num16(cx), self.num16(dl));
            if !self.cx_busy {
                self.ins(&format!("mov cx, {}", scx), "plain");
            }
            self.ins(&format!("mov dl, {}", sdl), "plain");
            self.ins("mov ah, 0x13", "plain");
            self.ins("int 0x10", "int10");
            self.tag("int10_13");
        }
    }

    fn int21(&mut self) {
        let edges = self.cfg.feat.edges;
        if self.cfg.feat.bad_ah && self.r.chance(15) {
            let ah = loop {
                let a = self.r.below(256) as u16;
                if a != 1 && a != 2 && a != 0x0a {
                    break a;
                }
            };
            let s = self.num16(ah);
            self.ins(&format!("mov ah, {}", s), "plain");
            self.ins("int 0x21", "int21");
            self.tag("bad_ah");
            return;
        }
        match self.r.below(3) {
            0 => {
                self.ins("mov ah, 1", "plain");
                self.ins("int 0x21", "int21");
                self.svc_reads += 1;
                self.tag("int21_01");
            }
            1 => {
                let dl = if edges && self.r.chance(25) {
                    *self.r.pick(&[0u16, 0x7f, 0x80, 0xff, 0x0a, 0x0d])
                } else {
                    self.r.range(0x20, 0x7e) as u16
                };
                let s = self.num16(dl);
                self.ins(&format!("mov dl, {}", s), "plain");
                self.ins("mov ah, 2", "plain");
                self.ins("int 0x21", "int21");
                self.tag("int21_02");
            }
            _ => {
                // AH=0Ah: buffer [cap][count][bytes..] at DS:DX
                let (ds, dx) = if edges && self.r.chance(35) {
                    self.tag("int21_0a_top_of_memory");
                    (0xFFFFu16, self.r.range(0, 15) as u16)
                } else if edges && self.r.chance(25) {
                    // the buffer runs past offset FFFFh: the address goes on linearly into the
                    // next 64 KB (DS*16 + DX + k), it does not wrap inside the segment
                    self.tag("int21_0a_offset_beyond_64k");
                    (*self.r.pick(&[0u16, 0x1000, 0x2345, 0xF000]), 0xFFF0 + self.r.below(16) as u16)
                } else if self.r.chance(30) {
                    (self.r.below(0x1000) as u16, self.r.below(0x400) as u16)
                } else {
                    (0u16, 0x200 + self.r.below(0x400) as u16)
                };
                let cap = if edges && self.r.chance(50) {
                    *self.r.pick(&[0u16, 1, 2, 255, 5])
                } else {
                    self.r.range(2, 12) as u16
                };
                if ds != 0 || self.r.chance(30) {
                    self.set_seg("ds", ds);
                }
                let (sdx, scap) = (self.num16(dx), self.num16(cap));
                // [dx] is not an addressing mode of the 8086; go through bx
                self.ins(&format!("mov bx, {}", sdx), "plain");
                self.ins(&format!("mov byte [bx], {}", scap), "plain");
                self.ins(&format!("mov dx, {}", sdx), "plain");
                self.ins("mov ah, 0x0a", "plain");
                self.ins("int 0x21", "int21");
                self.svc_reads += 1;
                self.tag("int21_0a");
                // the same buffer filled again (registers are untouched by the service): a shorter
                // second line must leave the rest of the first one alone
                let again = self.r.below(3) as usize;
                for _ in 0..again.min(if self.r.chance(35) { 2 } else { 0 }) {
                    self.ins("int 0x21", "int21");
                    self.svc_reads += 1;
                    self.tag("int21_0a_same_buffer_again");
                }
                // or a buffer whose count byte already holds something
                if self.r.chance(15) {
                    self.ins("inc bx", "plain");
                    self.ins("mov byte [bx], 7", "plain");
                    self.ins("int 0x21", "int21");
                    self.svc_reads += 1;
                    self.tag("int21_0a_stale_count");
                }
                if self.cfg.feat.prints && self.r.chance(40) {
                    self.ins("print mem : 20", "print");
                }
            }
        }
    }

    fn rep(&mut self) {
        if self.cx_busy {
            return self.plain();
        }
        let n = self.r.below(7) as u16;
        let a = self.r.below(0x100) as u16;
        let b = 0x100 + self.r.below(0x100) as u16;
        let (ssi, sdi, scx) = (self.num16(a), self.num16(b), self.num16(n));
        self.ins(&format!("mov si, {}", ssi), "plain");
        self.ins(&format!("mov di, {}", sdi), "plain");
        self.ins(&format!("mov cx, {}", scx), "plain");
        if self.r.chance(50) {
            self.ins("cld", "plain");
        }
        let w = *self.r.pick(&["byte", "word"]);
        let op = match self.r.below(5) {
            0 => format!("rep movs {}", w),
            1 => format!("rep stos {}", w),
            2 => format!("rep lods {}", w),
            3 => format!("{} cmps {}", self.r.pick(&["repe", "repne", "repz", "repnz"]), w),
            _ => format!("{} scas {}", self.r.pick(&["repe", "repne"]), w),
        };
        self.ins(&op, "rep");
        self.tag("rep");
    }

    fn stack(&mut self) {
        if self.cfg.feat.flags_under_tf && self.r.chance(20) {
            // an arbitrary word into the flag register (the trap flag stays as it is): the bits
            // that are no flags, the top four included, may be anything afterwards
            let mut w = self.r.next_u64() as u16;
            if self.r.chance(40) {
                w &= 0x0FFF;
            }
            w = (w & !0x0100) | if self.tf_on { 0x0100 } else { 0 };
            let a = self.wreg();
            let sw = self.num16(w);
            self.ins(&format!("mov {}, {}", a, sw), "plain");
            self.ins(&format!("push {}", a), "stack");
            self.ins("popf", "popf");
            if self.cfg.feat.prints {
                self.ins("print flags", "print");
            }
            self.tag("popf_arbitrary_word");
            return;
        }
        match self.r.below(3) {
            0 => {
                let a = self.wreg();
                let b = self.wreg();
                self.ins(&format!("push {}", a), "stack");
                self.ins(&format!("pop {}", b), "stack");
            }
            1 if !self.tf_on || self.cfg.feat.flags_under_tf => {
                self.ins("pushf", "stack");
                let b = self.wreg();
                self.ins(&format!("pop {}", b), "stack");
            }
            _ => {
                let a = self.wreg();
                self.ins(&format!("push {}", a), "stack");
                self.plain();
                self.ins(&format!("pop {}", a), "stack");
            }
        }
        self.tag("stack");
    }

    /// set (on=true) or clear the trap flag through the stack; in the reference variant the
    /// flag stays clear. The stack slot and AX are cleaned so that both variants leave the
    /// same memory and registers behind.
    fn tf_switch(&mut self, on: bool) {
        self.ins("pushf", "stack");
        self.ins("pop ax", "stack");
        if on {
            self.line_full("or ax, 0x0100", Some("or ax, 0x0000"), vec!["plain"], vec!["plain"]);
        } else {
            self.line_full("and ax, 0xFEFF", Some("and ax, 0xFFFF"), vec!["plain"], vec!["plain"]);
        }
        self.ins("push ax", "stack");
        self.ins("popf", "popf");
        self.ins("mov ax, 0", "plain");
        self.ins("push ax", "stack");
        self.ins("pop ax", "stack");
        self.tf_on = on;
        self.tag(if on { "tf_set_by_popf" } else { "tf_cleared_midrun" });
    }

    fn int3(&mut self) {
        // reference variant: an empty line emits nothing and keeps every line number
        // (`nop` is not accepted by the pinned assembler)
        self.line_full("int 3", Some(""), vec!["int3"], vec![]);
        self.tag("int3");
    }

    fn item(&mut self) {
        let f = &self.cfg.feat;
        // weighted choice among enabled kinds
        let mut kinds: Vec<(u32, u8)> = vec![(10, 0)];
        if f.prints {
            kinds.push((4, 1));
        }
        if f.int3 {
            kinds.push((2, 2));
        }
        if f.int10 {
            kinds.push((2, 3));
        }
        if f.int21 {
            kinds.push((2, 4));
        }
        if f.rep {
            kinds.push((2, 5));
        }
        if f.stack {
            kinds.push((2, 6));
        }
        if f.loops && self.depth < 2 && !self.cx_busy {
            kinds.push((2, 7));
        }
        if f.jumps && self.depth < 3 {
            kinds.push((2, 8));
        }
        if !self.procs.is_empty() {
            kinds.push((2, 9));
        }
        if !self.macros.is_empty() {
            kinds.push((2, 10));
        }
        let total: u32 = kinds.iter().map(|k| k.0).sum();
        let mut x = self.r.below(total as u64) as u32;
        let mut kind = 0;
        for (w, k) in &kinds {
            if x < *w {
                kind = *k;
                break;
            }
            x -= *w;
        }
        match kind {
            0 => self.plain(),
            1 => self.print_stmt(),
            2 => self.int3(),
            3 => self.int10(),
            4 => self.int21(),
            5 => self.rep(),
            6 => self.stack(),
            7 => {
                // counted loop
                let l = self.label();
                let n = self.r.range(1, 4) as u16;
                let s = self.num16(n);
                self.ins(&format!("mov cx, {}", s), "plain");
                if self.r.chance(30) {
                    // label sharing the line with the first body instruction
                    let t = format!("{}: inc si", l);
                    self.line_full(&t, None, vec!["plain"], vec!["plain"]);
                } else {
                    self.raw(&format!("{}:", l));
                }
                self.cx_busy = true;
                self.depth += 1;
                let k = self.r.urange(1, 3);
                for _ in 0..k {
                    self.item();
                }
                self.depth -= 1;
                self.cx_busy = false;
                self.ins(&format!("loop {}", l), "jump");
                self.tag("loop");
            }
            8 => {
                // forward jump over a block
                let l = self.label();
                if self.r.chance(50) {
                    self.ins(&format!("jmp {}", l), "jump");
                } else {
                    let (a, b) = (self.wreg(), self.imm16());
                    self.ins(&format!("cmp {}, {}", a, b), "plain");
                    let j = *self.r.pick(&["je", "jne", "jz", "jnz", "jc", "jnc", "ja", "jb", "js", "jns"]);
                    self.ins(&format!("{} {}", j, l), "jump");
                }
                self.depth += 1;
                let k = self.r.urange(1, 3);
                for _ in 0..k {
                    self.item();
                }
                self.depth -= 1;
                self.raw(&format!("{}:", l));
                self.tag("jump");
            }
            9 => {
                let p = self.r.pick(&self.procs).clone();
                self.ins(&format!("call {}", p), "call");
                self.tag("call");
            }
            _ => {
                let (name, np, em, rem) = self.r.pick(&self.macros).clone();
                let mut args = Vec::new();
                for _ in 0..np {
                    args.push(if self.r.chance(50) {
                        self.wreg().to_owned()
                    } else {
                        format!("{}", self.r.below(200))
                    });
                }
                let t = format!("{}({})", name, args.join(", "));
                self.line_full(&t, None, em, rem);
                self.tag("macro_use");
            }
        }
    }

    fn data_section(&mut self) {
        let n = self.r.urange(1, 4);
        for i in 0..n {
            if self.r.chance(25) {
                // the location counter moves; with `edges` sometimes to the very top of the address
                // space, so that the data that follows crosses 0xFFFFF and wraps to 0
                let x = if self.cfg.feat.edges && self.r.chance(50) {
                    self.tag("data_at_top_of_memory");
                    *self.r.pick(&[0xFFFFu16, 0xFFFE, 0xFFF0, 0xF000])
                } else {
                    self.r.below(0x200) as u16
                };
                let v = self.num16(x);
                self.raw(&format!("set {}", v));
            }
            let name = format!("d_{}", i);
            let labelled = self.r.chance(80);
            let pre = if labelled { format!("{}: ", name) } else { String::new() };
            let at_top = self.lines.last().map(|l| l.text.to_ascii_lowercase().contains("set ") && (l.text.to_ascii_lowercase().contains("ff") || l.text.contains("655"))).unwrap_or(false);
            let (txt, word) = match if at_top { 7 + self.r.below(3) } else { self.r.below(7) } {
                // right after a `set` to the top of memory: something long enough to cross 0xFFFFF
                7 => (format!("db \"{}\"", self.r.pick(&["The quick brown fox jumps over it", "0123456789abcdef0123456789", "wrap around the end of memory!", "0123456789abcdef", "0123456789abcde"])), false),
                8 => (format!("dw \"{}\"", self.r.pick(&["wide and long enough", "0123456789abcdefgh"])), true),
                9 => (format!("db [{}, {}]", self.imm8(), 17 + self.r.below(40)), false),
                0 => (format!("db {}", self.imm8()), false),
                1 => (format!("dw {}", self.imm16()), true),
                2 => {
                    if self.r.chance(50) {
                        (format!("db [{}]", self.r.below(40)), false)
                    } else {
                        (format!("dw [{}]", self.r.below(20)), true)
                    }
                }
                3 => (format!("dw [{}, {}]", self.imm16(), self.r.below(20)), true),
                4 => (format!("db \"{}\"", self.r.pick(&["Hello World", "a", "", "x y z!", "0123456789abcdef"])), false),
                5 => (format!("dw \"{}\"", self.r.pick(&["hi", "wide"])), true),
                _ => (format!("db [{}, {}]", self.imm8(), self.r.below(40)), false),
            };
            self.raw(&format!("{}{}", pre, txt));
            if labelled {
                self.data_labels.push((name, word));
            }
        }
        self.tag("data");
    }

    fn macro_defs(&mut self) {
        let n = self.r.urange(1, 3);
        for i in 0..n {
            let name = format!("m_{}", i);
            let np = self.r.urange(0, 2);
            // parameter names in a random order from a small pool, so that the same body text can
            // belong to different parameter lists
            let mut pool: Vec<String> = (0..3).map(|k| format!("a_{}", k)).collect();
            self.r.shuffle(&mut pool);
            let params: Vec<String> = pool.into_iter().take(np).collect();
            // body: 1-3 instructions using the parameters as source operands; sometimes a
            // print statement, a breakpoint or a console service inside the macro
            let ni = self.r.urange(1, 3);
            let mut body: Vec<String> = Vec::new();
            let mut ref_body: Vec<String> = Vec::new();
            let mut em: Vec<&'static str> = Vec::new();
            let mut rem: Vec<&'static str> = Vec::new();
            for k in 0..ni {
                let special = self.r.below(10);
                if special == 0 && self.cfg.feat.prints {
                    body.push("print reg".to_owned());
                    ref_body.push("print reg".to_owned());
                    em.push("print");
                    rem.push("print");
                    self.tag("print_in_macro");
                    continue;
                }
                if special == 1 && self.cfg.feat.int3 {
                    body.push("int 3".to_owned());
                    em.push("int3");
                    self.tag("int3_in_macro");
                    continue;
                }
                let src = if np > 0 { params[k % np].clone() } else { format!("{}", self.r.below(100)) };
                let dst = *self.r.pick(&["si", "di", "dx"]);
                let op = *self.r.pick(&["mov", "add", "sub"]);
                let t = format!("{} {}, {}", op, dst, src);
                body.push(t.clone());
                ref_body.push(t);
                em.push("macro_body");
                rem.push("macro_body");
            }
            if ref_body.is_empty() {
                // the reference variant must still assemble
                body.push("inc di".to_owned());
                ref_body.push("inc di".to_owned());
                em.push("macro_body");
                rem.push("macro_body");
            }
            // nested use of an earlier macro
            if i > 0 && self.r.chance(50) {
                let (pn, pnp, pem, prem) = self.r.pick(&self.macros).clone();
                let args: Vec<String> = (0..pnp).map(|_| "7".to_owned()).collect();
                let u = format!("{}({})", pn, args.join(","));
                // anywhere in the body: instructions of the outer macro may follow the inner use
                // (body items and emitted classes are parallel up to here: one instruction each)
                let at = if body.len() == em.len() && ref_body.len() == rem.len() && body.len() == ref_body.len() {
                    self.r.urange(0, body.len())
                } else {
                    body.len()
                };
                if at < body.len() {
                    body.insert(at, u.clone());
                    ref_body.insert(at, u);
                    let tail_em = em.split_off(at);
                    let tail_rem = rem.split_off(at);
                    em.extend(pem);
                    em.extend(tail_em);
                    rem.extend(prem);
                    rem.extend(tail_rem);
                    self.tag("nested_macro_inside");
                } else {
                    body.push(u.clone());
                    ref_body.push(u);
                    em.extend(pem);
                    rem.extend(prem);
                }
                self.tag("nested_macro");
            }
            let t = format!("macro {}({}) -> {} <-", name, params.join(","), body.join(" "));
            let rt = format!("macro {}({}) -> {} <-", name, params.join(","), ref_body.join(" "));
            self.line_full(&t, Some(&rt), vec![], vec![]);
            self.macros.push((name, np, em, rem));
        }
    }

    fn proc_defs(&mut self) {
        let n = self.r.urange(1, 2);
        for i in 0..n {
            let name = format!("p_{}", i);
            let brace_same_line = self.r.chance(50);
            if brace_same_line {
                self.raw(&format!("def {} {{", name));
            } else {
                self.raw(&format!("def {}", name));
                self.raw("{");
            }
            let k = self.r.urange(1, 3);
            // procedures may be called from inside counted loops: keep them off cx
            self.cx_busy = true;
            for _ in 0..k {
                // inside procedures: plain instructions, prints, macro uses, calls to earlier procedures
                match self.r.below(6) {
                    0 if self.cfg.feat.prints => self.print_in_proc(),
                    1 if !self.macros.is_empty() => {
                        let (mname, np, em, rem) = self.r.pick(&self.macros).clone();
                        let args: Vec<String> = (0..np).map(|_| "3".to_owned()).collect();
                        self.line_full(&format!("{}({})", mname, args.join(",")), None, em, rem);
                    }
                    2 if !self.procs.is_empty() => {
                        let p = self.r.pick(&self.procs).clone();
                        self.ins(&format!("call {}", p), "call");
                    }
                    3 if self.cfg.feat.int3 => self.int3(),
                    _ => self.plain(),
                }
            }
            self.cx_busy = false;
            // closing brace: alone, followed by a comment, or sharing the line with the last instruction
            match self.r.below(4) {
                0 => self.line_full("}", None, vec!["implied_ret"], vec!["implied_ret"]),
                1 => self.line_full("} ; end", None, vec!["implied_ret"], vec!["implied_ret"]),
                2 => self.line_full("  }  ", None, vec!["implied_ret"], vec!["implied_ret"]),
                _ => self.line_full("inc di }", None, vec!["plain", "implied_ret"], vec!["plain", "implied_ret"]),
            }
            self.procs.push(name);
        }
        self.tag("procs");
    }

    fn print_in_proc(&mut self) {
        // proc_contents does not allow print statements; use a plain instruction instead
        self.plain();
    }
}

/// Generate one program. Returns None never; validation against the real assembler is the caller's job.
pub fn generate(r: &mut Rng, cfg: &GenCfg) -> Program {
    let mut g = G {
        r,
        cfg,
        lines: vec![],
        n_label: 0,
        procs: vec![],
        macros: vec![],
        data_labels: vec![],
        tags: vec![],
        svc_reads: 0,
        cx_busy: false,
        tf_on: false,
        depth: 0,
    };
    if cfg.feat.data {
        g.data_section();
    }
    if cfg.feat.macros {
        g.macro_defs();
    }
    if cfg.feat.procs {
        g.proc_defs();
    }
    // entry point, sometimes sharing its line with the first instruction
    if g.r.chance(20) {
        g.line_full("start: mov di, 0", None, vec!["plain"], vec!["plain"]);
    } else {
        g.raw("start:");
    }
    if cfg.feat.tf {
        g.tf_switch(true);
    }
    let n = g.r.urange(cfg.body_lo.min(cfg.body_hi), cfg.body_hi.max(cfg.body_lo));
    let clear_at = if cfg.feat.tf && g.r.chance(50) { Some(g.r.urange(0, n)) } else { None };
    for i in 0..n {
        if Some(i) == clear_at {
            g.tf_switch(false);
        }
        g.item();
    }
    if cfg.feat.div0 && g.r.chance(60) {
        g.ins("mov bl, 0", "plain");
        g.ins("div bl", "div0");
        g.tag("div0");
    } else if cfg.feat.hlt && cfg.feat.jumps && g.r.chance(25) {
        // the program's last instruction is a hlt that is jumped over, to a label at the very end
        // of the file: a label that stands for "one past the last instruction"
        let l = g.label();
        g.ins(&format!("jmp {}", l), "jump");
        g.ins("hlt", "hlt");
        g.raw(&format!("{}:", l));
        g.tag("label_after_final_hlt");
    } else if cfg.feat.hlt && g.r.chance(60) {
        g.ins("hlt", "hlt");
        g.tag("explicit_hlt");
    }
    let mut p = Program {
        lines: g.lines,
        final_newline: cfg.layout.final_newline,
        crlf: cfg.layout.crlf,
        tags: g.tags,
        svc_reads: g.svc_reads,
    };
    if !p.final_newline {
        p.tags.push("no_final_newline".into());
    }
    if p.crlf {
        p.tags.push("crlf".into());
    }
    p
}
