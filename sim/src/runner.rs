//! Per-run pipeline: generate a case from (seed, property, run index), execute it, judge it,
//! minimise a violating case. Also the per-worker statistics.
use crate::case::*;
use crate::gen::*;
use crate::history::*;
use crate::oracle;
use crate::rng::{run_seed, Rng};
use crate::scenario::*;
use crate::session::*;
use crate::world;
use serde::{Deserialize, Serialize};
use std::collections::{BTreeMap, BTreeSet};

#[derive(Clone, Debug, Default, Serialize, Deserialize)]
pub struct Stats {
    pub runs: u64,
    pub executions: u64,
    pub gen_rejects: u64,
    pub gen_failed: u64,
    pub no_verdict_fuel: u64,
    pub simulated_steps: u64,
    pub console_ops: u64,
    pub config: BTreeMap<String, u64>,
    pub faults_configured: BTreeMap<String, u64>,
    pub faults_fired: BTreeMap<String, u64>,
    pub rare: BTreeMap<String, u64>,
    pub tags: BTreeMap<String, u64>,
    pub shapes: BTreeSet<u64>,
    pub nontrivial_shapes: BTreeSet<u64>,
    pub violations: BTreeMap<String, u64>,
    pub kinds: BTreeMap<String, u64>,
    pub exhaustive_parts: BTreeMap<String, u64>,
}

impl Stats {
    pub fn bump(m: &mut BTreeMap<String, u64>, k: &str, n: u64) {
        *m.entry(k.to_owned()).or_insert(0) += n;
    }
    pub fn merge(&mut self, o: &Stats) {
        self.runs += o.runs;
        self.executions += o.executions;
        self.gen_rejects += o.gen_rejects;
        self.gen_failed += o.gen_failed;
        self.no_verdict_fuel += o.no_verdict_fuel;
        self.simulated_steps += o.simulated_steps;
        self.console_ops += o.console_ops;
        for (a, b) in [
            (&mut self.config, &o.config),
            (&mut self.faults_configured, &o.faults_configured),
            (&mut self.faults_fired, &o.faults_fired),
            (&mut self.rare, &o.rare),
            (&mut self.tags, &o.tags),
            (&mut self.violations, &o.violations),
            (&mut self.kinds, &o.kinds),
            (&mut self.exhaustive_parts, &o.exhaustive_parts),
        ]
        .iter_mut()
        {
            for (k, v) in b.iter() {
                *a.entry(k.clone()).or_insert(0) += v;
            }
        }
        self.shapes.extend(o.shapes.iter().cloned());
        self.nontrivial_shapes.extend(o.nontrivial_shapes.iter().cloned());
    }

    /// count what actually happened in one history
    pub fn observe(&mut self, case: &Case, h: &History) {
        self.executions += 1;
        if h.clock_reads > 0 {
            Stats::bump(&mut self.faults_fired, "clock_reads_served", h.clock_reads);
        }
        let mut nontrivial = false;
        let mut avail_hint = 0usize;
        let _ = &mut avail_hint;
        let mut last_code: Option<&str> = None;
        let mut tf_seen = false;
        for e in &h.events {
            match e {
                Event::Probe { code, regs, .. } => {
                    self.simulated_steps += 1;
                    last_code = Some(code);
                    if regs[R_FLAGS] & oracle::TF_BIT != 0 {
                        if !tf_seen {
                            Stats::bump(&mut self.rare, "tf_set_by_popf", 1);
                        }
                        tf_seen = true;
                    } else if tf_seen {
                        Stats::bump(&mut self.rare, "tf_cleared_midrun", 1);
                        tf_seen = false;
                    }
                }
                Event::RawR { res, asked } => {
                    self.console_ops += 1;
                    match res.as_str() {
                        "eintr" => Stats::bump(&mut self.faults_fired, "stdin_eintr", 1),
                        "eio" => Stats::bump(&mut self.faults_fired, "stdin_read_error", 1),
                        "eof" => Stats::bump(&mut self.faults_fired, "stdin_eof_read", 1),
                        _ => {
                            if *asked <= 7 {
                                Stats::bump(&mut self.faults_fired, "stdin_tiny_buffer_refill", 1)
                            }
                        }
                    }
                    nontrivial = true;
                }
                Event::RawW { asked, accepted } => {
                    self.console_ops += 1;
                    match accepted {
                        None => Stats::bump(&mut self.faults_fired, "stdout_eintr", 1),
                        Some(n) if n < asked => Stats::bump(&mut self.faults_fired, "stdout_short_write", 1),
                        _ => {}
                    }
                }
                Event::Line { who, res } => {
                    nontrivial = true;
                    let cls = last_code.map(code_class).unwrap_or("none");
                    match (who, res) {
                        (Who::Prompt, LineRes::Eof) => {
                            Stats::bump(&mut self.rare, "eof_at_prompt", 1);
                            if cls == "rep" {
                                Stats::bump(&mut self.rare, "eof_at_prompt_inside_rep", 1);
                            }
                        }
                        (Who::Prompt, LineRes::Err(k)) => {
                            if k.starts_with("InvalidData") {
                                Stats::bump(&mut self.rare, "invalid_utf8_at_prompt", 1)
                            } else {
                                Stats::bump(&mut self.rare, "read_error_at_prompt", 1)
                            }
                        }
                        (Who::Prompt, LineRes::Ok(t)) => {
                            if !t.ends_with('\n') {
                                Stats::bump(&mut self.rare, "eof_mid_line", 1);
                            }
                            match oracle::classify_prompt_line(t) {
                                oracle::PromptCmd::Quit => {
                                    if t.chars().any(|c| c.is_ascii_uppercase()) {
                                        Stats::bump(&mut self.rare, "quit_uppercase", 1);
                                    }
                                    Stats::bump(&mut self.rare, "quit", 1);
                                }
                                oracle::PromptCmd::Print(_) => Stats::bump(&mut self.rare, "print_at_prompt", 1),
                                oracle::PromptCmd::Garbage | oracle::PromptCmd::Unknown => {
                                    Stats::bump(&mut self.rare, "garbage_at_prompt", 1)
                                }
                                oracle::PromptCmd::Next => {}
                            }
                            if cls == "int3" && case.scn.interpreted {
                                Stats::bump(&mut self.rare, "int3_under_interpreted", 1);
                            }
                            if cls == "ret" {
                                Stats::bump(&mut self.rare, "prompt_before_ret", 1);
                            }
                        }
                        (Who::Service, LineRes::Eof) => Stats::bump(&mut self.rare, "service_read_at_eof", 1),
                        (Who::Service, LineRes::Err(_)) => Stats::bump(&mut self.rare, "service_read_error", 1),
                        (Who::Service, LineRes::Ok(t)) => {
                            if !t.ends_with('\n') {
                                Stats::bump(&mut self.rare, "service_line_without_newline", 1);
                            }
                        }
                    }
                }
                Event::Fill { .. } | Event::Consumed { .. } => {
                    self.console_ops += 1;
                    Stats::bump(&mut self.rare, "stdin_read_without_read_line", 1);
                }
                Event::Flush => self.console_ops += 1,
                Event::Rec { .. } => self.console_ops += 1,
                Event::Fuel => self.no_verdict_fuel += 1,
                Event::Panic { .. } => Stats::bump(&mut self.rare, "panic_observed", 1),
                Event::Exit(_) | Event::Return => {}
            }
        }
        if case.scn.stdin.plan.iter().any(|p| matches!(p, ReadOp::Deliver(k) if *k < 4)) && h.stdin_consumed > 0 {
            Stats::bump(&mut self.faults_fired, "stdin_chunked_run", 1);
        }
        let sh = h.shape(&|c| code_class(c));
        self.shapes.insert(sh);
        if nontrivial {
            self.nontrivial_shapes.insert(sh);
        }
    }
}

pub struct Exec {
    pub h: History,
    pub alts: Vec<History>,
    pub multi: Option<crate::multi::MultiOutcome>,
    /// direct parser calls that aborted: (parser, input, panic key)
    pub parser_panics: Vec<(String, String, String)>,
    /// wall time of the main run (used by C15's proportional-time budget only; not part of any digest)
    pub wall_us: u64,
    /// CPU time of the main run and of the alternative runs (C15 size scaling only; not part of any digest)
    pub cpu_us: u64,
    pub alt_cpu_us: Vec<u64>,
}

pub fn execute(case: &Case) -> Exec {
    match case.kind.as_str() {
        "multi" => {
            let out = case.multi.as_ref().map(crate::multi::run_multi);
            Exec { h: History::default(), alts: vec![], multi: out, parser_panics: vec![], wall_us: 0, cpu_us: 0, alt_cpu_us: vec![] }
        }
        "history" => {
            // the scenario alone on a fresh thread, and again after its predecessors on one thread
            let h = world::run_cli(&case.scn);
            let preds: Vec<Scenario> = case.alts.iter().filter(|a| a.role == "pred").map(|a| a.scn.clone()).collect();
            let h2 = world::run_after(&preds, &case.scn);
            Exec { h, alts: vec![h2], multi: None, parser_panics: vec![], wall_us: 0, cpu_us: 0, alt_cpu_us: vec![] }
        }
        "scaling" => {
            // executed on this thread (64 MiB stack), so that its CPU time can be read
            let t0 = crate::c15::thread_cpu_us();
            let (h, _) = world::run_here(&case.scn, None);
            let t1 = crate::c15::thread_cpu_us();
            let mut alts = Vec::new();
            let mut alt_cpu_us = Vec::new();
            for a in &case.alts {
                let s0 = crate::c15::thread_cpu_us();
                let (ah, _) = world::run_here(&a.scn, None);
                alt_cpu_us.push(crate::c15::thread_cpu_us() - s0);
                alts.push(ah);
            }
            Exec { h, alts, multi: None, parser_panics: vec![], wall_us: 0, cpu_us: t1 - t0, alt_cpu_us }
        }
        _ => {
            let t = std::time::Instant::now();
            let (h, cpu_us) = world::run_cli_cpu(&case.scn);
            let wall_us = t.elapsed().as_micros() as u64;
            let alts = case.alts.iter().map(|a| world::run_cli(&a.scn)).collect();
            let parser_panics =
                if case.parser_inputs.is_empty() { vec![] } else { crate::c15::direct_parsers(&case.parser_inputs) };
            Exec { h, alts, multi: None, parser_panics, wall_us, cpu_us, alt_cpu_us: vec![] }
        }
    }
}

/// panic classes are keyed by file and the trimmed text of the panicking source line,
/// so that they survive line shifts
pub fn panic_key(file: &str, line: u32) -> String {
    let text = std::fs::read_to_string(file)
        .ok()
        .and_then(|s| s.lines().nth(line.saturating_sub(1) as usize).map(|l| l.trim().to_owned()))
        .unwrap_or_default();
    let short = if file.starts_with("/rustc/") || file.contains("/library/") {
        // a panic raised inside std on behalf of the caller: keep the std file name only
        format!("std:{}", file.rsplit('/').next().unwrap_or(file))
    } else {
        oracle::short_file(file)
    };
    if text.is_empty() || short.starts_with("std:") {
        short
    } else {
        format!("{}|{}", short, text)
    }
}

fn normalise_panic_classes(v: &mut Vec<Violation>, h: &History) {
    if let Some((_, file, line)) = h.panic() {
        let key = panic_key(file, line);
        for x in v.iter_mut() {
            if let Some(p) = x.class.find(":panic@") {
                x.class = format!("{}:panic@{}", &x.class[..p], key);
            }
        }
    }
}

pub fn judge(case: &Case, ex: &Exec) -> Result<Vec<Violation>, String> {
    if case.kind == "multi" {
        let mut v = ex.multi.as_ref().map(|m| m.viols.clone()).unwrap_or_default();
        let mut seen = BTreeSet::new();
        v.retain(|x| seen.insert(x.class.clone()));
        return Ok(v);
    }
    // simulator self-checks first: a failure here is a harness error, never a verdict
    world::self_check(&ex.h)?;
    for a in &ex.alts {
        world::self_check(a)?;
    }
    let mut v = match (case.property.as_str(), case.kind.as_str()) {
        ("C20", _) => oracle::check_c20(case, &ex.h, &ex.alts),
        ("C16", "diag") => crate::diag::judge(case, ex),
        ("C16", _) => oracle::check_c16(case, &ex.h),
        ("C17", _) => oracle::check_c17(case, &ex.h, &ex.alts),
        ("C18", _) => oracle::check_c18(case, &ex.h),
        ("C19", "env") => crate::c19::judge_env(case, ex),
        ("C19", "history") => crate::c19::judge_history(case, ex),
        ("C15", _) => crate::c15::judge(case, ex),
        _ => vec![],
    };
    if case.property != "C15" {
        normalise_panic_classes(&mut v, &ex.h);
    }
    // one violation per class
    let mut seen = BTreeSet::new();
    v.retain(|x| seen.insert(x.class.clone()));
    Ok(v)
}

fn pick_weighted<'a, T>(r: &mut Rng, xs: &'a [(u64, T)]) -> &'a T {
    let total: u64 = xs.iter().map(|x| x.0).sum();
    let mut x = r.below(total);
    for (w, t) in xs {
        if x < *w {
            return t;
        }
        x -= *w;
    }
    &xs[0].1
}

/// Enumerated sub-space of C18: every AH value 0..=255 for both interrupts, one run each,
/// fault-free, identical for all seeds.
fn ah_sweep_case(seed: u64, run: u64, stats: &mut Stats) -> Case {
    let int_no = if run < 256 { "0x10" } else { "0x21" };
    let ah = run % 256;
    let mk = |t: &str, e: Vec<&'static str>| SrcLine { text: t.to_owned(), ref_text: t.to_owned(), emits: e.clone(), ref_emits: e };
    let lines = vec![
        mk("start:", vec![]),
        mk("mov cx, 2", vec!["plain"]),
        mk("mov dx, 0x0341", vec!["plain"]),
        mk("mov bx, 0x0341", vec!["plain"]),
        mk("mov byte [bx], 4", vec!["plain"]),
        mk(&format!("mov ax, 0x{:02x}41", ah), vec!["plain"]),
        mk(&format!("int {}", int_no), vec![if run < 256 { "int10" } else { "int21" }]),
        mk("mov si, 1", vec!["plain"]),
    ];
    let prog = Program { lines, final_newline: true, crlf: false, tags: vec!["ah_sweep".to_owned()], svc_reads: 1 };
    let mut scn = Scenario::new(prog.render().as_bytes());
    scn.stdin.bytes = Bytes(b"hello\nworld\n".to_vec());
    let mut case = Case::new("C18", "sweep", seed, run, scn);
    case.gen = Some(prog.info());
    case.program = Some(prog.to_ser());
    Stats::bump(&mut stats.exhaustive_parts, "ah_sweep_512", 1);
    case
}

/// Generation phase: the only place random numbers are drawn.
pub fn make_case(prop: &str, seed: u64, run: u64, stats: &mut Stats) -> Option<Case> {
    if prop == "C18" && run < 512 {
        return Some(ah_sweep_case(seed, run, stats));
    }
    if prop == "C16" && run % 5 >= 3 {
        // diagnostic clause: localised storage faults (DESIGN.md section 6.2)
        return match crate::diag::make_case(seed, run, stats) {
            Some(c) => Some(c),
            None => {
                stats.gen_failed += 1;
                None
            }
        };
    }
    let rs = run_seed(seed, prop, run);
    let mut r = Rng::new(rs);
    let faulted = run % 2 == 1;
    let plan = match prop {
        "C20" => {
            let stepping = *pick_weighted(
                &mut r,
                &[
                    (35, Stepping::Interpreted),
                    (20, Stepping::Tf),
                    (20, Stepping::Int3),
                    (20, Stepping::Mixed),
                    (5, Stepping::None),
                ],
            );
            let mut feat = Feat::swarm(&mut r, 50);
            if stepping == Stepping::Mixed && r.chance(50) {
                feat.int3 = true;
            }
            let policy = if faulted {
                ScriptPolicy {
                    print_pct: *r.pick(&[0, 10, 25]),
                    garbage_pct: *r.pick(&[0, 10, 25]),
                    badutf8_pct: *r.pick(&[0, 0, 4]),
                    quit_pct: *r.pick(&[0, 0, 2, 6]),
                    eof_pct: *r.pick(&[0, 0, 2, 6]),
                    svc_badutf8_pct: *r.pick(&[0, 0, 10]),
                    edges: r.chance(50),
                }
            } else {
                ScriptPolicy {
                    print_pct: *r.pick(&[0, 10, 25]),
                    garbage_pct: *r.pick(&[0, 10, 25]),
                    badutf8_pct: 0,
                    quit_pct: 0,
                    eof_pct: 0,
                    svc_badutf8_pct: 0,
                    edges: r.chance(50),
                }
            };
            SessionPlan {
                property: "C20",
                stepping,
                feat,
                layout: if r.chance(50) { Layout::swarm(&mut r) } else { Layout::plain() },
                body: (if r.chance(6) { 0 } else { 1 }, *r.pick(&[0, 3, 6, 12, 25])),
                policy,
                faulted,
                alt_plain_ref: true,
                alt_no_prints: false,
            }
        }
        "C16" => {
            let stepping = *pick_weighted(
                &mut r,
                &[
                    (30, Stepping::Interpreted),
                    (10, Stepping::Tf),
                    (20, Stepping::Int3),
                    (20, Stepping::Mixed),
                    (20, Stepping::None),
                ],
            );
            let mut feat = Feat::swarm(&mut r, 55);
            feat.prints |= r.chance(50);
            feat.div0 |= r.chance(30);
            feat.bad_ah |= r.chance(30);
            feat.int10 |= feat.bad_ah;
            SessionPlan {
                property: "C16",
                stepping,
                feat,
                layout: Layout::swarm(&mut r),
                body: (1, *r.pick(&[3, 6, 12, 25])),
                policy: ScriptPolicy { print_pct: 5, garbage_pct: 5, ..ScriptPolicy::next_only() },
                faulted,
                alt_plain_ref: false,
                alt_no_prints: false,
            }
        }
        "C17" => {
            let stepping = *pick_weighted(
                &mut r,
                &[(35, Stepping::Interpreted), (15, Stepping::Int3), (15, Stepping::Mixed), (15, Stepping::Tf), (20, Stepping::None)],
            );
            let mut feat = Feat::swarm(&mut r, 45);
            feat.prints = true;
            // no reference variant is compared here: the flag image may show TF
            feat.flags_under_tf = true;
            feat.edges = r.chance(70);
            feat.memops |= r.chance(50);
            feat.data |= r.chance(50);
            SessionPlan {
                property: "C17",
                stepping,
                feat,
                layout: if r.chance(30) { Layout::swarm(&mut r) } else { Layout::plain() },
                body: (2, *r.pick(&[4, 8, 16])),
                policy: ScriptPolicy {
                    print_pct: *r.pick(&[30, 50, 70]),
                    garbage_pct: 5,
                    edges: r.chance(70),
                    eof_pct: if faulted { *r.pick(&[0, 3]) } else { 0 },
                    ..ScriptPolicy::next_only()
                },
                faulted,
                alt_plain_ref: false,
                alt_no_prints: true,
            }
        }
        "C18" => {
            let stepping = *pick_weighted(&mut r, &[(70, Stepping::None), (20, Stepping::Interpreted), (10, Stepping::Int3)]);
            let mut feat = Feat::swarm(&mut r, 35);
            feat.int10 = r.chance(70);
            feat.int21 = r.chance(80) || !feat.int10;
            feat.edges = r.chance(70);
            feat.bad_ah = r.chance(40);
            feat.div0 = false;
            SessionPlan {
                property: "C18",
                stepping,
                feat,
                layout: if r.chance(20) { Layout::swarm(&mut r) } else { Layout::plain() },
                body: (2, *r.pick(&[4, 8, 14])),
                policy: ScriptPolicy {
                    eof_pct: if faulted { *r.pick(&[0, 5, 20]) } else { 0 },
                    svc_badutf8_pct: if faulted { *r.pick(&[0, 10]) } else { 0 },
                    edges: true,
                    ..ScriptPolicy::next_only()
                },
                faulted,
                alt_plain_ref: false,
                alt_no_prints: false,
            }
        }
        _ => return None,
    };
    let b = build_session(&mut r, seed, run, &plan);
    match b {
        Some(b) => {
            stats.gen_rejects += b.rejects as u64;
            Some(b.case)
        }
        None => {
            stats.gen_failed += 1;
            None
        }
    }
}

/// ddmin-style reduction: keep removing chunks of `items` while `test` stays true
fn ddmin<T: Clone>(items: Vec<T>, budget: &mut u32, mut test: impl FnMut(&[T]) -> bool) -> Vec<T> {
    let mut cur = items;
    let mut n = 2usize;
    while cur.len() >= 1 && *budget > 0 {
        let len = cur.len();
        let chunk = (len + n - 1) / n;
        let mut reduced = false;
        let mut i = 0;
        while i < len && *budget > 0 {
            let mut cand: Vec<T> = Vec::with_capacity(len);
            cand.extend_from_slice(&cur[..i]);
            cand.extend_from_slice(&cur[(i + chunk).min(len)..]);
            *budget -= 1;
            if test(&cand) {
                cur = cand;
                reduced = true;
                break;
            }
            i += chunk;
        }
        if reduced {
            n = (n - 1).max(2);
        } else {
            if chunk <= 1 {
                break;
            }
            n = (n * 2).min(len);
        }
    }
    cur
}

thread_local! {
    /// the minimiser stops trying after 25 s (a time budget on how small the replay file gets,
    /// never on a verdict): set when a minimisation starts
    static MIN_DEADLINE: std::cell::Cell<Option<std::time::Instant>> = std::cell::Cell::new(None);
}

fn still_fails(case: &Case, class: &str) -> bool {
    if let Some(d) = MIN_DEADLINE.with(|c| c.get()) {
        if std::time::Instant::now() > d {
            return false;
        }
    }
    let ex = execute(case);
    match judge(case, &ex) {
        Ok(v) => v.iter().any(|x| x.class == class),
        Err(_) => false,
    }
}

/// Shrink a violating case while the same violation class persists (bounded).
pub fn minimise(case: &Case, class: &str) -> Case {
    MIN_DEADLINE.with(|c| c.set(Some(std::time::Instant::now() + std::time::Duration::from_secs(25))));
    let r = minimise_inner(case, class);
    MIN_DEADLINE.with(|c| c.set(None));
    r
}

fn minimise_inner(case: &Case, class: &str) -> Case {
    let mut best = case.clone();
    let mut budget: u32 = 250;
    // 1. simplify the environment
    {
        let mut c = best.clone();
        c.scn.stdin.plan.clear();
        c.scn.stdout.plan.clear();
        c.scn.stdin.bufreader_cap = 8192;
        c.scn.stdout.linewriter_cap = 1024;
        c.scn.dirty_heap = false;
        c.scn.warm_thread = false;
        budget -= 1;
        if still_fails(&c, class) {
            c.faults.retain(|f| f.starts_with("eof") || f == "closed");
            best = c;
        }
    }
    // 2. stdin script, line by line (not when other runs are compared with this one: their
    //    scripts are derived from the same lines and would no longer correspond)
    if best.alts.is_empty() {
        let bytes = best.scn.stdin.bytes.0.clone();
        let mut lines: Vec<Vec<u8>> = Vec::new();
        let mut cur = Vec::new();
        for b in bytes {
            cur.push(b);
            if b == b'\n' {
                lines.push(std::mem::take(&mut cur));
            }
        }
        if !cur.is_empty() {
            lines.push(cur);
        }
        let base = best.clone();
        let kept = ddmin(lines, &mut budget, |ls| {
            let mut c = base.clone();
            c.scn.stdin.bytes = Bytes(ls.concat());
            still_fails(&c, class)
        });
        best.scn.stdin.bytes = Bytes(kept.concat());
    }
    // 3. program lines
    if let Some(p) = best.program.clone() {
        let base = best.clone();
        let kept = ddmin(p.lines.clone(), &mut budget, |ls| {
            let mut c = base.clone();
            let mut pp = p.clone();
            pp.lines = ls.to_vec();
            c.program = Some(pp);
            if !rebuild_from_program(&mut c) {
                return false;
            }
            still_fails(&c, class)
        });
        let mut pp = p.clone();
        pp.lines = kept;
        let mut c = best.clone();
        c.program = Some(pp);
        if rebuild_from_program(&mut c) && still_fails(&c, class) {
            best = c;
        }
    } else if best.kind == "diag" {
        let n = String::from_utf8_lossy(&best.scn.source.0).split('\n').count();
        let base = best.clone();
        let kept = ddmin((0..n).collect::<Vec<usize>>(), &mut budget, |ks| match crate::diag::rebuild(&base, ks) {
            Some(c) => still_fails(&c, class),
            None => false,
        });
        if let Some(c) = crate::diag::rebuild(&base, &kept) {
            if still_fails(&c, class) {
                best = c;
            }
        }
    } else if best.kind == "storage" || best.kind == "env" {
        // raw source: by lines, then nothing finer (bounded)
        let src = best.scn.source.0.clone();
        let mut lines: Vec<Vec<u8>> = Vec::new();
        let mut cur = Vec::new();
        for b in src {
            cur.push(b);
            if b == b'\n' {
                lines.push(std::mem::take(&mut cur));
            }
        }
        if !cur.is_empty() {
            lines.push(cur);
        }
        let base = best.clone();
        let kept = ddmin(lines, &mut budget, |ls| {
            let mut c = base.clone();
            c.scn.source = Bytes(ls.concat());
            for a in c.alts.iter_mut() {
                a.scn.source = c.scn.source.clone();
            }
            still_fails(&c, class)
        });
        best.scn.source = Bytes(kept.concat());
        for a in best.alts.iter_mut() {
            a.scn.source = best.scn.source.clone();
        }
    }
    best
}
