//! C19 (b,c): several machines interleaved by a seeded scheduler over *shared* parser
//! objects (one Preprocessor, DataParser, Interpreter, PrintParser for all of them), with
//! parse-error injection and machine creation/destruction in between, compared with each
//! machine alone on fresh objects. Optionally every machine lives on its own real thread
//! and a baton decides who runs (real threads, simulator-chosen schedule).
use crate::case::Violation;
// the two service entry points are internal names of the driver: used when they exist with the
// signatures known to this harness (build.rs looks), otherwise the stub loop skips the services
// on both sides of the comparison
#[cfg(driver_int_fns)]
use crate::driver::interrupts::{int_13, int_21};
#[cfg(not(driver_int_fns))]
fn int_13(_vm: &VM, _ah: u8) {}
#[cfg(not(driver_int_fns))]
fn int_21(_vm: &mut VM, _ah: u8) {}
use crate::driver::print::PrintParser;
use crate::driver::sim_io::{self, Caller, Console};
use crate::history::{MB, R_AX};
use crate::rng::fnv1a;
use crate::world::regs_of;
use emulator_8086_lib::{
    DataParser, Interpreter, InterpreterContext, LabelType, Preprocessor, PreprocessorContext,
    PreprocessorOutput, State, VM,
};
use serde::{Deserialize, Serialize};
use std::cell::RefCell;
use std::collections::VecDeque;
use std::rc::Rc;
use std::sync::{Arc, Condvar, Mutex};

#[derive(Clone, Debug, Serialize, Deserialize, PartialEq, Eq)]
pub struct Machine {
    pub source: String,
    pub stdin: String,
}

#[derive(Clone, Debug, Serialize, Deserialize, PartialEq, Eq)]
#[serde(rename_all = "snake_case")]
pub enum Inject {
    /// parse this (invalid or valid) line on a scratch machine through the shared parser objects
    PoisonLine(String),
    /// create a new machine and check that it is pristine
    MachineCreate,
    /// drop the scratch machines created so far
    MachineDrop,
}

#[derive(Clone, Debug, Serialize, Deserialize, PartialEq, Eq)]
pub struct MultiSpec {
    pub machines: Vec<Machine>,
    /// which machine steps next; when exhausted: round robin over the unfinished ones
    pub order: Vec<usize>,
    /// (position in the schedule, what to do before that step)
    pub inject: Vec<(usize, Inject)>,
    /// none | baton
    pub threads: String,
    pub fuel: u64,
    /// the shared side also re-uses ONE assembler context / output pair for every source, emptied
    /// with their own clear() in between (the solo runs always use fresh ones)
    #[serde(default)]
    pub reuse_contexts: bool,
}

pub struct Parsers {
    pub pre: Preprocessor,
    pub data: DataParser,
    pub interp: Interpreter,
    pub printer: PrintParser,
    /// when set: the one context / output pair every assembly on this side goes through
    pub reuse: Option<Mutex<(PreprocessorContext, PreprocessorOutput)>>,
}

impl Parsers {
    pub fn new() -> Parsers {
        Parsers {
            pre: Preprocessor::new(),
            data: DataParser::new(),
            interp: Interpreter::new(),
            printer: PrintParser::new(),
            reuse: None,
        }
    }

    /// assemble `text`; `f` sees the context and the output (fresh ones, or the re-used pair after clear())
    pub fn assemble<R>(&self, text: &str, f: impl FnOnce(Result<(), String>, &mut PreprocessorContext, &mut PreprocessorOutput) -> R) -> R {
        match &self.reuse {
            Some(m) => {
                let mut g = match m.lock() {
                    Ok(g) => g,
                    Err(p) => p.into_inner(),
                };
                let (ctx, out) = &mut *g;
                ctx.clear();
                out.clear();
                let r = self.pre.parse(ctx, out, text).map_err(|e| format!("{}", e));
                f(r, ctx, out)
            }
            None => {
                let mut ctx = PreprocessorContext::default();
                let mut out = PreprocessorOutput::default();
                let r = self.pre.parse(&mut ctx, &mut out, text).map_err(|e| format!("{}", e));
                f(r, &mut ctx, &mut out)
            }
        }
    }
}

struct MiniState {
    records: String,
    stdin: VecDeque<String>,
}

struct MiniConsole(Rc<RefCell<MiniState>>);

impl Console for MiniConsole {
    fn emit(&mut self, _module: &'static str, _line: u32, text: &str) {
        self.0.borrow_mut().records.push_str(text);
    }
    fn flush(&mut self) -> std::io::Result<()> {
        Ok(())
    }
    fn read_line(&mut self, _who: Caller, buf: &mut String) -> std::io::Result<usize> {
        match self.0.borrow_mut().stdin.pop_front() {
            Some(l) => {
                buf.push_str(&l);
                Ok(l.len())
            }
            None => Ok(0),
        }
    }
    fn probe(&mut self, _idx: usize, _code: &str, _vm: &VM) -> bool {
        false
    }
    fn exit(&mut self, _code: i32) {}
}

/// One machine: program, VM, context, position; stepped by the stub run loop below.
pub struct Mach {
    source: String,
    state: Rc<RefCell<MiniState>>,
    code: Vec<String>,
    ictx: Option<InterpreterContext>,
    vm: Option<VM>,
    idx: usize,
    pub done: bool,
    pub steps: u64,
    /// (idx, outcome, registers) per step
    pub trace: Vec<(usize, String, [u16; 14])>,
}

#[derive(Clone, Debug, PartialEq, Eq)]
pub struct MachResult {
    pub trace: Vec<(usize, String, [u16; 14])>,
    pub records: String,
    pub mem_digest: u64,
    pub final_regs: Option<[u16; 14]>,
}

fn split_lines(s: &str) -> VecDeque<String> {
    let mut v = VecDeque::new();
    let mut cur = String::new();
    for ch in s.chars() {
        cur.push(ch);
        if ch == '\n' {
            v.push_back(std::mem::take(&mut cur));
        }
    }
    if !cur.is_empty() {
        v.push_back(cur);
    }
    v
}

impl Mach {
    pub fn new(m: &Machine) -> Mach {
        Mach {
            source: m.source.clone(),
            state: Rc::new(RefCell::new(MiniState { records: String::new(), stdin: split_lines(&m.stdin) })),
            code: vec![],
            ictx: None,
            vm: None,
            idx: 0,
            done: false,
            steps: 0,
            trace: vec![],
        }
    }

    /// the stub of the driver's preparation: comment stripping, assemble, label check, data load
    fn setup(&mut self, p: &Parsers) {
        let re = regex::Regex::new(r";.*\n?").unwrap();
        let unc = re.replace_all(&self.source, "\n").to_string();
        enum Prep {
            Failed(String),
            NoStart,
            Ready(usize, Vec<String>, Vec<String>, InterpreterContext),
        }
        let prep = p.assemble(&unc, |r, ctx, out| {
            if let Err(e) = r {
                return Prep::Failed(e);
            }
            let start = match ctx.label_map.get("start") {
                Some(l) => match l.get_type() {
                    LabelType::CODE => l.map,
                    LabelType::DATA => return Prep::NoStart,
                },
                None => return Prep::NoStart,
            };
            let ictx = InterpreterContext {
                fn_map: std::mem::take(&mut ctx.fn_map),
                label_map: std::mem::take(&mut ctx.label_map),
                call_stack: Vec::new(),
            };
            Prep::Ready(start, std::mem::take(&mut out.data), std::mem::take(&mut out.code), ictx)
        });
        let (start, data, mut code, ictx) = match prep {
            Prep::Failed(e) => {
                self.trace.push((0, format!("assemble error {}", e), [0; 14]));
                self.done = true;
                return;
            }
            Prep::NoStart => {
                self.done = true;
                return;
            }
            Prep::Ready(a, b, c, d) => (a, b, c, d),
        };
        let mut vm = VM::new();
        let mut ctr = 0;
        for d in data.iter() {
            if let Err(e) = p.data.parse(&mut vm, &mut ctr, d) {
                self.trace.push((0, format!("data error {}", e), [0; 14]));
                self.done = true;
                return;
            }
        }
        vm.arch.ds = 0;
        code.push("hlt".to_owned());
        self.code = code;
        self.ictx = Some(ictx);
        self.vm = Some(vm);
        self.idx = start;
    }

    /// one step of the stub run loop (the driver's State dispatch without prompts)
    pub fn step(&mut self, p: &Parsers) {
        if self.done {
            return;
        }
        let prev = sim_io::install(Box::new(MiniConsole(self.state.clone())));
        let r = std::panic::catch_unwind(std::panic::AssertUnwindSafe(|| self.step_inner(p)));
        let mine = sim_io::uninstall();
        drop(mine);
        if let Some(c) = prev {
            sim_io::install(c);
        }
        if r.is_err() {
            let site = crate::world::take_last_panic()
                .map(|(_, f, l)| format!("{}:{}", crate::oracle::short_file(&f), l))
                .unwrap_or_default();
            let regs = self.vm.as_ref().map(regs_of).unwrap_or([0; 14]);
            self.trace.push((self.idx, format!("panic {}", site), regs));
            self.done = true;
        }
    }

    fn step_inner(&mut self, p: &Parsers) {
        if self.vm.is_none() {
            self.setup(p);
            return;
        }
        self.steps += 1;
        let vm = self.vm.as_mut().unwrap();
        let ictx = self.ictx.as_mut().unwrap();
        let idx = self.idx;
        if idx >= self.code.len() {
            self.done = true;
            return;
        }
        let line = self.code[idx].clone();
        let outcome;
        match p.interp.parse(idx, vm, ictx, &line) {
            Err(e) => {
                outcome = format!("error {}", e);
                self.done = true;
            }
            Ok(s) => {
                outcome = format!("{:?}", s);
                match s {
                    State::HALT => self.done = true,
                    State::PRINT => {
                        if print_with(&p.printer, vm, &line).is_err() {
                            self.done = true;
                        }
                        self.idx += 1;
                    }
                    State::JMP(n) => self.idx = n,
                    State::NEXT => self.idx += 1,
                    State::REPEAT => {}
                    State::INT(n) => match n {
                        0 => self.done = true,
                        3 => self.idx += 1,
                        0x10 => {
                            let ah = (vm.arch.ax >> 8) as u8;
                            if ah != 0x0a && ah != 0x13 {
                                self.done = true;
                            } else {
                                int_13(vm, ah);
                                self.idx += 1;
                            }
                        }
                        0x21 => {
                            let ah = (vm.arch.ax >> 8) as u8;
                            if ah != 1 && ah != 2 && ah != 0x0a {
                                self.done = true;
                            } else {
                                int_21(vm, ah);
                                self.idx += 1;
                            }
                        }
                        _ => self.done = true,
                    },
                }
            }
        }
        let regs = regs_of(self.vm.as_ref().unwrap());
        self.trace.push((idx, outcome, regs));
    }

    pub fn result(&self) -> MachResult {
        MachResult {
            trace: self.trace.clone(),
            records: self.state.borrow().records.clone(),
            mem_digest: self.vm.as_ref().map(|v| fnv1a(&v.mem[..])).unwrap_or(0),
            final_regs: self.vm.as_ref().map(regs_of),
        }
    }
}

/// each machine alone, on fresh parser objects
pub fn run_solo(m: &Machine, fuel: u64) -> MachResult {
    let p = Parsers::new();
    let mut mach = Mach::new(m);
    let mut n = 0;
    while !mach.done && n < fuel {
        mach.step(&p);
        n += 1;
    }
    mach.result()
}

fn pristine(vm: &VM) -> Result<(), String> {
    let r = regs_of(vm);
    for (i, v) in r.iter().enumerate() {
        let want = match i {
            0 => 0xF000,
            10 => 0xFFFF,
            _ => 0,
        };
        if *v != want {
            return Err(format!("{} = {:04X}", crate::history::REG_NAMES[i], v));
        }
    }
    if let Some(p) = vm.mem.iter().position(|b| *b != 0) {
        return Err(format!("memory[{:#x}] = {:#04x}", p, vm.mem[p]));
    }
    Ok(())
}

/// the print reader called with a string directly (sim/build.rs: only when it has today's shape)
#[cfg(print_reader_takes_vm)]
pub fn print_with(p: &PrintParser, vm: &VM, text: &str) -> Result<(), String> {
    p.parse(vm, text).map(|_| ()).map_err(|e| format!("{}", e))
}
#[cfg(not(print_reader_takes_vm))]
pub fn print_with(_p: &PrintParser, _vm: &VM, _text: &str) -> Result<(), String> {
    Ok(())
}
pub fn print_reader_direct() -> bool {
    cfg!(print_reader_takes_vm)
}

/// everything the driver takes from the assembler's context, in a fixed order
fn ctx_summary(ctx: &mut PreprocessorContext) -> String {
    let mut und: Vec<(usize, String)> = ctx.undefined_labels.iter().cloned().collect();
    und.sort();
    let mut labels: Vec<String> = ctx.label_map.iter().map(|(k, l)| format!("{}={:?}@{}>{}", k, l.r#type, l.source_position, l.map)).collect();
    labels.sort();
    let mut fns: Vec<String> = ctx.fn_map.iter().map(|(k, v)| format!("{}={}", k, v)).collect();
    fns.sort();
    // (names only: what a macro is stored as is the assembler's own business)
    let mut macros: Vec<String> = ctx.macro_map.keys().cloned().collect();
    macros.sort();
    let mut nest: Vec<String> = ctx.macro_nesting_counter.iter().cloned().collect();
    nest.sort();
    let mut map: Vec<(usize, usize)> = std::mem::take(&mut ctx.mapper).get_source_map().into_iter().collect();
    map.sort();
    format!("undefined{:?} labels{:?} procedures{:?} macros{:?} nesting{:?} data_counter={} source_map{:?}", und, labels, fns, macros, nest, ctx.data_counter, map)
}

/// a line index that has answered other questions must answer like a fresh one: every position
/// of the text is asked of one helper (in three orders) and of a helper made for that question
fn lexer_helper_used_vs_fresh(text: &str) -> String {
    use emulator_8086_lib::LexerHelper;
    if text.is_empty() || text.len() > 4096 {
        return String::new();
    }
    let used = LexerHelper::new(text);
    let n = text.len() + 1;
    let mut order: Vec<usize> = (0..n).collect();
    order.extend((0..n).rev());
    let stride = 7usize;
    order.extend((0..n).map(|i| (i * stride) % n));
    let mut diffs = Vec::new();
    for p in order {
        let a = used.get_line(p);
        let b = LexerHelper::new(text).get_line(p);
        if a != b {
            diffs.push(format!("pos {}: used {:?} fresh {:?}", p, a, b));
            if diffs.len() >= 3 {
                break;
            }
        }
    }
    diffs.join("; ")
}

/// result of parsing one line through a set of parser objects, as a comparable string
fn poison(p: &Parsers, text: &str) -> String {
    let r = std::panic::catch_unwind(std::panic::AssertUnwindSafe(|| {
        let mut vm = VM::new();
        let mut ictx = InterpreterContext::default();
        let a = match p.interp.parse(0, &mut vm, &mut ictx, text) {
            Ok(s) => format!("ok {:?}", s),
            Err(e) => format!("err {}", e),
        };
        let mut ctr = 0usize;
        let b = match p.data.parse(&mut vm, &mut ctr, text) {
            Ok(_) => "ok".to_string(),
            Err(e) => format!("err {}", e),
        };
        let st = Rc::new(RefCell::new(MiniState { records: String::new(), stdin: VecDeque::new() }));
        let prev = sim_io::install(Box::new(MiniConsole(st.clone())));
        let c = match print_with(&p.printer, &vm, text) {
            Ok(_) => format!("ok {}", st.borrow().records),
            Err(e) => format!("err {}", e),
        };
        let _ = sim_io::uninstall();
        if let Some(pc) = prev {
            sim_io::install(pc);
        }
        let d = p.assemble(text, |r, ctx, out| match r {
            Ok(_) => format!("ok {:?} {}", out, ctx_summary(ctx)),
            Err(e) => format!("err {}", e),
        });
        let e = lexer_helper_used_vs_fresh(text);
        format!("I[{}] D[{}] P[{}] A[{}] L[{}] regs{:?} mem{:016x}", a, b, c, d, e, regs_of(&vm), fnv1a(&vm.mem[..]))
    }));
    match r {
        Ok(s) => s,
        Err(_) => {
            let _ = sim_io::uninstall();
            let site = crate::world::take_last_panic()
                .map(|(_, f, l)| format!("{}:{}", crate::oracle::short_file(&f), l))
                .unwrap_or_default();
            format!("panic {}", site)
        }
    }
}

#[derive(Default, Clone, Debug)]
pub struct MultiStats {
    pub steps: u64,
    pub switches: u64,
    pub poison: u64,
    pub creates: u64,
    pub drops: u64,
    pub switch_inside_rep: u64,
    pub switch_inside_call: u64,
    pub schedule_hash: u64,
    pub thread_handoffs: u64,
}

pub struct MultiOutcome {
    pub viols: Vec<Violation>,
    pub stats: MultiStats,
}

fn compare(k: usize, solo: &MachResult, shared: &MachResult, how: &str, v: &mut Vec<Violation>) {
    if solo.trace != shared.trace {
        let first = solo.trace.iter().zip(shared.trace.iter()).position(|(a, b)| a != b).unwrap_or(solo.trace.len().min(shared.trace.len()));
        v.push(Violation::new(
            format!("C19:interleaving_changed{{trace;{}}}", how),
            format!(
                "machine {} behaves differently when interleaved over shared parser objects: first difference at step {} (alone: {:?}, interleaved: {:?}; {} vs {} steps)",
                k, first, solo.trace.get(first), shared.trace.get(first), solo.trace.len(), shared.trace.len()
            ),
        ));
    } else if solo.records != shared.records {
        v.push(Violation::new(
            format!("C19:interleaving_changed{{output;{}}}", how),
            format!("machine {} prints something different when interleaved over shared parser objects", k),
        ));
    } else if solo.mem_digest != shared.mem_digest || solo.final_regs != shared.final_regs {
        v.push(Violation::new(
            format!("C19:interleaving_changed{{state;{}}}", how),
            format!("machine {} ends in a different state when interleaved over shared parser objects", k),
        ));
    }
}

/// Sequential interleaving on one thread
pub fn run_multi(spec: &MultiSpec) -> MultiOutcome {
    if spec.threads == "baton" {
        return run_multi_baton(spec);
    }
    let mut viols = Vec::new();
    let mut st = MultiStats::default();
    let solos: Vec<MachResult> = spec.machines.iter().map(|m| run_solo(m, spec.fuel)).collect();
    let mut shared = Parsers::new();
    if spec.reuse_contexts {
        shared.reuse = Some(Mutex::new((PreprocessorContext::default(), PreprocessorOutput::default())));
    }
    let mut machs: Vec<Mach> = spec.machines.iter().map(Mach::new).collect();
    let mut scratch: Vec<VM> = Vec::new();
    let n = machs.len();
    let mut pos = 0usize;
    let mut rr = 0usize;
    let mut last: Option<usize> = None;
    let mut sched: Vec<u8> = Vec::new();
    let total_budget = spec.fuel * n as u64 + 8;
    let mut count = 0u64;
    while machs.iter().any(|m| !m.done && m.steps < spec.fuel) && count < total_budget {
        count += 1;
        for (at, inj) in &spec.inject {
            if *at == pos {
                apply_inject(inj, &shared, &mut scratch, &mut viols, &mut st);
            }
        }
        // who is next
        let mut k = if pos < spec.order.len() { spec.order[pos] % n } else { rr % n };
        let mut tries = 0;
        while (machs[k].done || machs[k].steps >= spec.fuel) && tries < n {
            k = (k + 1) % n;
            tries += 1;
        }
        if pos >= spec.order.len() {
            rr = k + 1;
        }
        pos += 1;
        if last != Some(k) {
            st.switches += 1;
            if let Some(l) = last {
                let code = machs[l].code.get(machs[l].idx).map(|s| s.as_str()).unwrap_or("");
                if code.starts_with("rep") && !machs[l].done {
                    st.switch_inside_rep += 1;
                }
                if machs[l].ictx.as_ref().map(|c| !c.call_stack.is_empty()).unwrap_or(false) {
                    st.switch_inside_call += 1;
                }
            }
        }
        last = Some(k);
        sched.push(k as u8);
        machs[k].step(&shared);
        st.steps += 1;
    }
    st.schedule_hash = fnv1a(&sched);
    for (k, m) in machs.iter().enumerate() {
        compare(k, &solos[k], &m.result(), "sequential", &mut viols);
    }
    MultiOutcome { viols, stats: st }
}

fn apply_inject(inj: &Inject, shared: &Parsers, scratch: &mut Vec<VM>, viols: &mut Vec<Violation>, st: &mut MultiStats) {
    match inj {
        Inject::PoisonLine(t) => {
            st.poison += 1;
            let used = poison(shared, t);
            // the reference: fresh objects on a thread that has never run anything
            let t2 = t.clone();
            let fresh = std::thread::Builder::new()
                .stack_size(64 << 20)
                .spawn(move || {
                    crate::world::install_panic_hook();
                    poison(&Parsers::new(), &t2)
                })
                .ok()
                .and_then(|h| h.join().ok())
                .unwrap_or_else(|| "the fresh thread could not run".to_owned());
            if let Some(at) = used.rfind(" L[") {
                let l = &used[at + 3..];
                if !l.starts_with(']') {
                    viols.push(Violation::new(
                        "C19:line_index_history_dependent",
                        format!("a LexerHelper that has answered other positions places a position differently than a fresh one: {}", &l[..l.find(']').unwrap_or(l.len())]),
                    ));
                }
            }
            if used != fresh {
                viols.push(Violation::new(
                    "C19:parser_history_dependent",
                    format!("line {:?} gives {:?} on parser objects that have processed other lines and {:?} on fresh ones", t, used, fresh),
                ));
            }
        }
        Inject::MachineCreate => {
            st.creates += 1;
            // dirty the heap first, so that a VM that is not zeroed would show
            {
                let junk: Vec<Vec<u8>> = (0..2).map(|_| vec![0xAAu8; MB]).collect();
                assert_eq!(junk[1][777], 0xAA);
            }
            // both public ways of making a machine
            let (vm, how) = if st.creates % 2 == 1 { (VM::new(), "VM::new()") } else { (VM::default(), "VM::default()") };
            if let Err(what) = pristine(&vm) {
                viols.push(Violation::new("C19:vm_not_pristine", format!("a new machine ({}) starts with {}", how, what)));
            }
            scratch.push(vm);
        }
        Inject::MachineDrop => {
            st.drops += 1;
            // scribble over the scratch machines before dropping them
            for vm in scratch.iter_mut() {
                vm.arch.ax = 0xDEAD;
                vm.mem[0] = 0x55;
                vm.mem[MB - 1] = 0x55;
            }
            scratch.clear();
        }
    }
}

struct Baton {
    /// Some(k): machine k may take one step; None: the scheduler decides
    turn: Mutex<(Option<usize>, bool)>,
    cv: Condvar,
}

/// Same schedule, but every machine lives on its own real thread; exactly one thread runs
/// at any time and the hand-over order is the simulator's, so the execution replays.
pub fn run_multi_baton(spec: &MultiSpec) -> MultiOutcome {
    let mut viols = Vec::new();
    let mut st = MultiStats::default();
    let solos: Vec<MachResult> = spec.machines.iter().map(|m| run_solo(m, spec.fuel)).collect();
    let mut shared0 = Parsers::new();
    if spec.reuse_contexts {
        shared0.reuse = Some(Mutex::new((PreprocessorContext::default(), PreprocessorOutput::default())));
    }
    let shared = Arc::new(shared0);
    let n = spec.machines.len();
    let baton = Arc::new(Baton { turn: Mutex::new((None, false)), cv: Condvar::new() });
    // per machine: (done, steps) as seen by the scheduler
    let status: Arc<Mutex<Vec<(bool, u64)>>> = Arc::new(Mutex::new(vec![(false, 0); n]));
    let mut handles = Vec::new();
    for (k, m) in spec.machines.iter().enumerate() {
        let m = m.clone();
        let shared = shared.clone();
        let baton = baton.clone();
        let status = status.clone();
        let fuel = spec.fuel;
        handles.push(
            std::thread::Builder::new()
                .stack_size(16 << 20)
                .spawn(move || {
                    crate::world::install_panic_hook();
                    let mut mach = Mach::new(&m);
                    loop {
                        let mut g = baton.turn.lock().unwrap();
                        while g.0 != Some(k) && !g.1 {
                            g = baton.cv.wait(g).unwrap();
                        }
                        if g.1 {
                            break;
                        }
                        drop(g);
                        mach.step(&shared);
                        {
                            let mut s = status.lock().unwrap();
                            s[k] = (mach.done || mach.steps >= fuel, mach.steps);
                        }
                        let mut g = baton.turn.lock().unwrap();
                        g.0 = None;
                        baton.cv.notify_all();
                    }
                    mach.result()
                })
                .unwrap(),
        );
    }
    let mut scratch: Vec<VM> = Vec::new();
    let mut pos = 0usize;
    let mut rr = 0usize;
    let mut sched: Vec<u8> = Vec::new();
    let mut last = None;
    let total_budget = spec.fuel * n as u64 + 8;
    let mut count = 0;
    loop {
        let stv = status.lock().unwrap().clone();
        if stv.iter().all(|s| s.0) || count >= total_budget {
            break;
        }
        count += 1;
        for (at, inj) in &spec.inject {
            if *at == pos {
                apply_inject(inj, &shared, &mut scratch, &mut viols, &mut st);
            }
        }
        let mut k = if pos < spec.order.len() { spec.order[pos] % n } else { rr % n };
        let mut tries = 0;
        while stv[k].0 && tries < n {
            k = (k + 1) % n;
            tries += 1;
        }
        if pos >= spec.order.len() {
            rr = k + 1;
        }
        pos += 1;
        if last != Some(k) {
            st.switches += 1;
            st.thread_handoffs += 1;
        }
        last = Some(k);
        sched.push(k as u8);
        // hand the baton to thread k and wait until it gives it back
        let mut g = baton.turn.lock().unwrap();
        g.0 = Some(k);
        baton.cv.notify_all();
        while g.0.is_some() {
            g = baton.cv.wait(g).unwrap();
        }
        drop(g);
        st.steps += 1;
    }
    {
        let mut g = baton.turn.lock().unwrap();
        g.1 = true;
        baton.cv.notify_all();
    }
    st.schedule_hash = fnv1a(&sched);
    for (k, h) in handles.into_iter().enumerate() {
        match h.join() {
            Ok(r) => compare(k, &solos[k], &r, "baton_threads", &mut viols),
            Err(_) => viols.push(Violation::new("C19:thread_died", format!("thread of machine {} died", k))),
        }
    }
    let _ = R_AX;
    MultiOutcome { viols, stats: st }
}
