//! C19 (b,c): several machines interleaved by a seeded scheduler over shared parser objects.
use serde::{Deserialize, Serialize};

#[derive(Clone, Debug, Serialize, Deserialize, PartialEq, Eq)]
pub struct Machine {
    pub source: String,
    pub stdin: String,
}

#[derive(Clone, Debug, Serialize, Deserialize, PartialEq, Eq)]
#[serde(rename_all = "snake_case")]
pub enum Inject {
    /// parse this (invalid or valid) line on a scratch machine through the shared parser objects
    PoisonLine(String),
    /// create a new machine and check that it is pristine
    MachineCreate,
    /// drop the scratch machines created so far
    MachineDrop,
}

#[derive(Clone, Debug, Serialize, Deserialize, PartialEq, Eq)]
pub struct MultiSpec {
    pub machines: Vec<Machine>,
    /// which machine steps next; when exhausted: round robin over the unfinished ones
    pub order: Vec<usize>,
    /// (position in the schedule, what to do before that step)
    pub inject: Vec<(usize, Inject)>,
    /// none | baton
    pub threads: String,
    pub fuel: u64,
}
