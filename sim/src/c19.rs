//! C19: reproducible runs; machines and parser objects do not leak state.
//! (a) kind "env": the same (source, stdin) under different environments (hash seed, stdin
//!     delivery plan, stdout short writes, warm thread, dirty heap) must give identical
//!     logical output, exit kind and final state.
//! (b,c) kind "multi": see multi.rs.
use crate::case::*;
use crate::gen::*;
use crate::history::*;
use crate::multi::*;
use crate::rng::{run_seed, Rng};
use crate::runner::{Exec, Stats};
use crate::scenario::*;
use crate::session::*;

/// several simultaneous errors: which one is reported must not depend on the environment
fn break_program(r: &mut Rng, text: &str) -> (String, Vec<String>) {
    let mut lines: Vec<String> = text.lines().map(|s| s.to_owned()).collect();
    let mut tags = Vec::new();
    let start_at = lines.iter().position(|l| l.trim_start().starts_with("start:")).map(|p| p + 1).unwrap_or(lines.len());
    match r.below(8) {
        7 => {
            // the file ends in the middle of a statement (the diagnostic lists what could follow),
            // with undefined labels before it
            for k in 0..r.urange(0, 2) {
                let at = r.urange(start_at, lines.len());
                lines.insert(at, format!("jmp X_{}", k));
            }
            lines.push((*r.pick(&["mov ax,", "d_9: dw", "add bx, word", "print mem 5 ->", "call", "mov byte ["])).to_owned());
            tags.push("ends_mid_statement".to_owned());
            let t = lines.join("\n");
            return (if r.chance(50) { t + "\n" } else { t }, tags);
        }
        5 | 6 => {
            // undefined labels inside macro bodies: every expansion is parsed on its own, so the
            // recorded positions are relative to the expanded text and may coincide
            let n = r.urange(2, 5);
            let at_def = lines.iter().position(|l| l.trim_start().starts_with("start:")).unwrap_or(0);
            for k in 0..n {
                // sometimes several undefined labels in one body: after the use has been expanded
                // they all carry the position of that one use
                if r.chance(40) {
                    lines.insert(at_def, format!("macro mu_{}() -> jmp UM_{}a jne UM_{}b loop UM_{}c <-", k, k, k, k));
                } else {
                    lines.insert(at_def, format!("macro mu_{}() -> jmp UM_{} <-", k, k));
                }
            }
            let start_at = start_at + n;
            let mut order: Vec<usize> = (0..n).collect();
            r.shuffle(&mut order);
            for k in order {
                let at = r.urange(start_at, lines.len());
                lines.insert(at, format!("mu_{}()", k));
            }
            if r.chance(40) {
                let at = r.urange(start_at, lines.len());
                lines.insert(at, "jmp U_plain".to_owned());
            }
            tags.push("undefined_labels_inside_macros".to_owned());
        }
        0 | 1 | 2 => {
            // 2..6 jumps to labels that are never defined
            let n = r.urange(2, 6);
            for k in 0..n {
                let at = r.urange(start_at, lines.len());
                let j = *r.pick(&["jmp", "je", "jnz", "loop", "jc"]);
                lines.insert(at, format!("{} U_{}", j, k));
            }
            tags.push("several_undefined_labels".to_owned());
        }
        3 => {
            // undefined labels plus a missing start
            for l in lines.iter_mut() {
                if l.trim_start().starts_with("start:") {
                    *l = l.replacen("start:", "begin:", 1);
                }
            }
            let n = r.urange(1, 3);
            for k in 0..n {
                lines.push(format!("jmp V_{}", k));
            }
            tags.push("no_start_and_undefined_labels".to_owned());
        }
        _ => {
            // undefined labels plus a later syntax error
            let n = r.urange(2, 4);
            for k in 0..n {
                let at = r.urange(start_at, lines.len());
                lines.insert(at, format!("jmp W_{}", k));
            }
            lines.push("mov ax,, 5".to_owned());
            tags.push("undefined_labels_and_syntax_error".to_owned());
        }
    }
    (lines.join("\n") + "\n", tags)
}

fn vary_env(r: &mut Rng, base: &Scenario) -> (Scenario, Vec<String>) {
    let mut s = base.clone();
    let mut kinds = Vec::new();
    s.hash_seed = r.next_u64();
    kinds.push("hash_seed".to_owned());
    s.stdin.plan.clear();
    s.stdout.plan.clear();
    s.stdin.bufreader_cap = 8192;
    s.stdout.linewriter_cap = 1024;
    kinds.extend(overlay_delivery(r, &mut s));
    if r.chance(40) {
        s.warm_thread = true;
        kinds.push("warm_thread".to_owned());
    }
    if r.chance(40) {
        s.dirty_heap = true;
        kinds.push("dirty_heap".to_owned());
    }
    // another clock: frozen, creeping, leaping ten seconds or an hour per read, an hour once in
    // four reads; another starting moment
    s.clock = crate::scenario::ClockSpec {
        start_ns: *r.pick(&[0u64, 1, 999_999_999, 86_399_000_000_000, 1u64 << 62]),
        plan: match r.below(6) {
            0 => vec![],
            1 => vec![1_000],
            2 => vec![10_000_000_000],
            3 => vec![3_600_000_000_000],
            4 => vec![0, 0, 0, 3_600_000_000_000],
            _ => vec![1_000_000, 7_000_000_000, 13],
        },
    };
    kinds.push("clock".to_owned());
    (s, kinds)
}

/// enumerated prefix: every AH value under both console interrupts, as a tiny program executed in
/// several environments (and, by the real binary, in two process environments at two moments): a
/// service must not bring the clock, the process or the environment into the machine
pub const SERVICE_ENUM: u64 = 512;

fn make_service_case(seed: u64, run: u64) -> Option<Case> {
    let mut r = Rng::new(run_seed(seed, "C19", 1_000_000 + run));
    let ah = run % 256;
    let int = if run < 256 { "0x10" } else { "0x21" };
    let src = format!(
        "buf: db [12]\nstart:\nmov byte buf, 6\nmov dx, offset buf\nmov bp, 2\nmov cx, 3\nmov bx, 16\nmov si, 3\nmov di, 5\nmov al, 0x41\nmov ah, {}\nint {}\nprint reg\nprint mem : 11\n",
        ah, int
    );
    let mut scn = Scenario::new(src.as_bytes());
    scn.stdin.bytes = Bytes(b"hello world\nsecond\n".to_vec());
    scn.fuel = 200;
    let mut case = Case::new("C19", "env", seed, run, scn);
    let mut kinds_all = Vec::new();
    for _ in 0..2 {
        let (s, kinds) = vary_env(&mut r, &case.scn);
        kinds_all.extend(kinds);
        case.alts.push(AltRun { role: "env".to_owned(), scn: s, gen: None });
    }
    kinds_all.sort();
    kinds_all.dedup();
    case.faults = kinds_all;
    case.config = "enumerated_service_numbers".to_owned();
    Some(case)
}

pub fn make_case(seed: u64, run: u64, stats: &mut Stats) -> Option<Case> {
    if run < SERVICE_ENUM {
        return make_service_case(seed, run);
    }
    // (the seeded part keeps the random streams it had before the enumerated prefix existed)
    let rs = run_seed(seed, "C19", run - SERVICE_ENUM);
    let mut r = Rng::new(rs);
    if run % 160 == 0 {
        return make_long_silent_case(&mut r, seed, run);
    }
    match run % 5 {
        0 | 1 => make_env_case(&mut r, seed, run, stats),
        2 => make_multi_case(&mut r, seed, run, false),
        3 => make_multi_case(&mut r, seed, run, true),
        _ => make_history_case(&mut r, seed, run, stats),
    }
}

/// Look-alikes of a source text: same names, same shapes, something different behind them
fn look_alike(r: &mut Rng, text: &str) -> String {
    let mut lines: Vec<String> = text.split('\n').map(|s| s.to_owned()).collect();
    for _ in 0..r.urange(1, 3) {
        match r.below(5) {
            0 => {
                // macro parameter lists permuted (same body text, other meaning)
                for l in lines.iter_mut() {
                    if l.trim_start().to_ascii_lowercase().starts_with("macro") {
                        if let (Some(a), Some(b)) = (l.find('('), l.find(')')) {
                            if a < b {
                                let mut ps: Vec<String> = l[a + 1..b].split(',').map(|x| x.trim().to_owned()).filter(|x| !x.is_empty()).collect();
                                if ps.len() > 1 {
                                    ps.rotate_left(1);
                                    *l = format!("{}({}){}", &l[..a], ps.join(","), &l[b + 1..]);
                                }
                            }
                        }
                    }
                }
            }
            1 => {
                // an instruction more after the entry point: every later label and jump moves by one
                if let Some(p) = lines.iter().position(|l| l.trim_start().starts_with("start:")) {
                    lines.insert(p + 1, "inc di".to_owned());
                }
            }
            2 => {
                // macro bodies changed, names kept
                for l in lines.iter_mut() {
                    if l.trim_start().to_ascii_lowercase().starts_with("macro") {
                        *l = l.replace(" si,", " dx,").replace("add ", "sub ");
                    }
                }
            }
            3 => {
                // a data item more in front: every data label moves
                lines.insert(0, "db [3]".to_owned());
            }
            _ => {
                // procedure bodies changed, names kept
                let mut in_proc = false;
                for l in lines.iter_mut() {
                    let t = l.trim_start().to_ascii_lowercase();
                    if t.starts_with("def ") {
                        in_proc = true;
                    } else if in_proc && t.starts_with('}') {
                        in_proc = false;
                    } else if in_proc && t.starts_with("mov ") {
                        *l = l.replacen("mov ", "add ", 1).replacen("MOV ", "ADD ", 1);
                    }
                }
            }
        }
    }
    lines.join("\n")
}

/// kind "history": a session alone on a fresh thread, and again after a few look-alikes and
/// unrelated sessions on one thread: whatever the library keeps per thread must not show
fn make_history_case(r: &mut Rng, seed: u64, run: u64, stats: &mut Stats) -> Option<Case> {
    let mk = |r: &mut Rng, stats: &mut Stats| -> Option<Case> {
        let stepping = *r.pick(&[Stepping::None, Stepping::None, Stepping::Interpreted, Stepping::Int3]);
        let mut feat = Feat::swarm(r, 55);
        feat.macros |= r.chance(60);
        feat.procs |= r.chance(40);
        feat.jumps |= r.chance(60);
        feat.loops |= r.chance(40);
        let plan = SessionPlan {
            property: "C19",
            stepping,
            feat,
            layout: Layout::plain(),
            body: (2, *r.pick(&[4, 8, 14])),
            policy: ScriptPolicy { print_pct: 10, garbage_pct: 5, ..ScriptPolicy::next_only() },
            faulted: false,
            alt_plain_ref: false,
            alt_no_prints: false,
        };
        let b = build_session(r, seed, run, &plan)?;
        stats.gen_rejects += b.rejects as u64;
        Some(b.case)
    };
    let main = mk(r, stats)?;
    let mut case = main.clone();
    case.kind = "history".to_owned();
    case.program = None;
    case.alts.clear();
    let text = String::from_utf8_lossy(&main.scn.source.0).into_owned();
    let n = r.urange(1, 4);
    for k in 0..n {
        let mut p = main.scn.clone();
        if k == 0 || r.chance(50) {
            // a look-alike of the session itself (it may not even assemble: then it is a rejected source)
            p.source = Bytes(look_alike(r, &text).into_bytes());
        } else if let Some(other) = mk(r, stats) {
            p = other.scn;
        }
        p.stdin.plan.clear();
        p.stdout.plan.clear();
        case.alts.push(AltRun { role: "pred".to_owned(), scn: p, gen: None });
    }
    case.config = "thread_history".to_owned();
    case.faults = vec!["earlier_sessions_on_the_same_thread".to_owned()];
    Some(case)
}

pub fn judge_history(_case: &Case, ex: &Exec) -> Vec<Violation> {
    let mut v = Vec::new();
    let a = &ex.h;
    let b = match ex.alts.get(0) {
        Some(b) => b,
        None => return v,
    };
    if a.out_of_fuel() || b.out_of_fuel() {
        return v;
    }
    let trace = |h: &History| -> Vec<(usize, [u16; 14])> {
        h.events.iter().filter_map(|e| match e { Event::Probe { idx, regs, .. } => Some((*idx, *regs)), _ => None }).collect()
    };
    let (oa, ob) = (a.records_text(), b.records_text());
    if oa != ob || a.stderr_text() != b.stderr_text() {
        let p = oa.bytes().zip(ob.bytes()).position(|(x, y)| x != y).unwrap_or(oa.len().min(ob.len()));
        let ctx = |s: &str| -> String {
            let bts = s.as_bytes();
            String::from_utf8_lossy(&bts[p.saturating_sub(30).min(bts.len())..(p + 60).min(bts.len())]).into_owned()
        };
        v.push(Violation::new(
            "C19:thread_history_dependent{output}",
            format!("the same source and input give different output on a thread that has run other sessions before: {:?} (fresh) vs {:?}", ctx(&oa), ctx(&ob)),
        ));
    } else if trace(a) != trace(b) || a.final_mem() != b.final_mem() {
        v.push(Violation::new(
            "C19:thread_history_dependent{state}",
            "the same source and input lead to a different instruction trace or final memory on a thread that has run other sessions before".to_string(),
        ));
    } else if a.ended() != b.ended() {
        v.push(Violation::new("C19:thread_history_dependent{exit}", "the run ends differently on a thread that has run other sessions before".to_string()));
    }
    v
}

/// a program that computes for thousands of instructions without saying or asking anything,
/// then shows its state: whatever the emulator does "now and then" (every so many instructions,
/// after so much time) happens here, under clocks that creep, leap or stand still
fn make_long_silent_case(r: &mut Rng, seed: u64, run: u64) -> Option<Case> {
    let n1 = r.range(1400, 2000);
    let n2 = r.range(300, 800);
    let mut src = String::from("buf: db [8]\nstart:\n");
    src.push_str(&format!("mov cx, {}\nl_1: add ax, 3\nxchg ax, bx\nloop l_1\nprint reg\n", n1));
    if r.chance(50) {
        src.push_str("mov dl, 0x2a\nmov ah, 2\nint 0x21\n");
    }
    if r.chance(50) {
        src.push_str("mov ah, 1\nint 0x21\n");
    }
    src.push_str(&format!("mov cx, {}\nl_2: inc si\nmov word [6], si\nloop l_2\nprint mem : 7\nprint reg\n", n2));
    let mut scn = Scenario::new(src.as_bytes());
    scn.stdin.bytes = Bytes(b"one line\n".to_vec());
    scn.fuel = 40_000;
    if r.chance(25) {
        scn.interpreted = false;
    }
    let mut case = Case::new("C19", "env", seed, run, scn);
    let mut kinds_all = Vec::new();
    let n_env = r.urange(2, 4);
    for _ in 0..n_env {
        let (s, kinds) = vary_env(r, &case.scn);
        kinds_all.extend(kinds);
        case.alts.push(AltRun { role: "env".to_owned(), scn: s, gen: None });
    }
    kinds_all.sort();
    kinds_all.dedup();
    case.faults = kinds_all;
    case.config = "long_silent_program".to_owned();
    Some(case)
}

fn make_env_case(r: &mut Rng, seed: u64, run: u64, stats: &mut Stats) -> Option<Case> {
    // a session (program + script) from the common builder
    let stepping = *r.pick(&[Stepping::None, Stepping::Interpreted, Stepping::Int3, Stepping::Mixed]);
    let mut feat = Feat::swarm(r, 50);
    feat.int21 |= r.chance(40);
    let plan = SessionPlan {
        property: "C19",
        stepping,
        feat,
        layout: if r.chance(50) { Layout::swarm(r) } else { Layout::plain() },
        body: (1, *r.pick(&[3, 8, 16])),
        policy: ScriptPolicy {
            print_pct: 15,
            garbage_pct: 10,
            badutf8_pct: 2,
            quit_pct: 2,
            eof_pct: 2,
            svc_badutf8_pct: 3,
            edges: r.chance(50),
        },
        faulted: false,
        alt_plain_ref: false,
        alt_no_prints: false,
    };
    let b = build_session(r, seed, run, &plan)?;
    stats.gen_rejects += b.rejects as u64;
    let mut case = b.case;
    case.kind = "env".to_owned();
    case.program = None;
    let invalid = r.chance(55);
    if invalid {
        let text = String::from_utf8_lossy(&case.scn.source.0).into_owned();
        let (broken, tags) = break_program(r, &text);
        case.scn.source = Bytes(broken.into_bytes());
        if let Some(g) = case.gen.as_mut() {
            g.tags.extend(tags);
        }
        case.gen.as_mut().map(|g| {
            g.idx_line.clear();
            g.idx_class.clear();
        });
    }
    if !invalid && r.chance(30) {
        // labels that differ only in case from existing ones: harmless in a correct emulator
        let text = String::from_utf8_lossy(&case.scn.source.0).into_owned();
        let mut lines: Vec<String> = text.split('\n').map(|s| s.to_owned()).collect();
        let start_at = lines.iter().position(|l| l.trim_start().starts_with("start:")).map(|p| p + 1).unwrap_or(lines.len());
        let n = r.urange(1, 3);
        for _ in 0..n {
            let at = r.urange(start_at.min(lines.len()), lines.len());
            let l = *r.pick(&["Start:", "START:", "sTART:", "l_1:", "l_2:", "P_0:", "D_0:"]);
            if !lines.iter().any(|x| x.trim() == l) {
                lines.insert(at, l.to_owned());
            }
            // procedures and macros whose names differ only in case from existing ones, with
            // bodies of their own (defined in front of the entry point)
            if r.chance(50) {
                let d = *r.pick(&["def P_0 { add di, 77 }", "def P_1 { sub di, 5 }", "macro M_0() -> add di, 33 <-", "def p_9 { inc di }\ndef P_9 { dec di }"]);
                let at0 = start_at.saturating_sub(1).min(lines.len());
                lines.insert(at0, d.to_owned());
                if d.contains("p_9") {
                    lines.insert((at0 + 2).min(lines.len()), "call p_9".to_owned());
                    lines.insert((at0 + 3).min(lines.len()), "print reg".to_owned());
                }
            }
        }
        let t2 = lines.join("\n");
        if assemble_count(&t2).is_some() {
            case.scn.source = Bytes(t2.into_bytes());
            if let Some(g) = case.gen.as_mut() {
                g.tags.push("case_variant_labels".to_owned());
            }
        }
    }
    let n_env = r.urange(2, 4);
    let mut kinds_all = Vec::new();
    for _ in 0..n_env {
        let (s, kinds) = vary_env(r, &case.scn);
        kinds_all.extend(kinds);
        case.alts.push(AltRun { role: "env".to_owned(), scn: s, gen: None });
    }
    kinds_all.sort();
    kinds_all.dedup();
    case.faults = kinds_all;
    case.config = if invalid { "invalid_program".to_owned() } else { "valid_program".to_owned() };
    Some(case)
}

/// whole sources for the shared assembler (and its re-used context): they define names the
/// machines' programs use too, fail half way, nest too deeply, recurse
fn poison_sources() -> Vec<String> {
    let mut v = vec![
        "macro m_0(a_0) -> add bx, a_0 <-\nmacro m_1() -> inc bx <-\nd_0: db 9\nL_1:\nstart:\nm_0(3)\njmp L_1".to_owned(),
        "def p_0 { inc bx }\ndef p_1 { dec bx }\nd_1: dw 7\nstart:\ncall p_0\nmov ax,, 1".to_owned(),
        "macro r_a() -> r_b() <-\nmacro r_b() -> r_a() <-\nstart:\nr_a()".to_owned(),
        "set 0x200\nd_0: db [65535]\nd_2: db [65535]\nstart:\nhlt".to_owned(),
        "start:\njmp nowhere_1\njmp nowhere_2\nL_2:\nL_2:".to_owned(),
        // an expansion that fails after it has met a forward jump, and the same shapes succeeding
        "macro f_0(x) -> jmp fwd_x mov ax,, 1 <-\nstart:\nf_0(1)\nfwd_x:\nhlt".to_owned(),
        "macro f_1(x) -> jne fwd_y f_2(x) <-\nmacro f_2(y) -> jmp fwd_z add bx,, y <-\nstart:\nf_1(1)\n".to_owned(),
        "macro g_0(x) -> jmp fwd_g add bx, x <-\nstart:\ng_0(2)\nfwd_g:\nhlt".to_owned(),
        "macro g_1() -> inc ax <-\nmacro g_2() -> g_1() g_1() <-\nstart:\ng_2()\njmp done\ng_1()\ndone:\nhlt".to_owned(),
        "def p_2 { jmp inner\ninner: ret }\nstart:\ncall p_2\ncall p_2x".to_owned(),
        "d_3: db \"abc\"\nd_4: dw [3]\nstart:\nmov ax, word d_4\nprint mem : 4\nmov ax, word d_5".to_owned(),
    ];
    // a chain one level deeper than the assembler accepts
    let mut t = String::from("macro c_0() -> inc ax <-\n");
    for d in 1..=101 {
        t.push_str(&format!("macro c_{}() -> c_{}() <-\n", d, d - 1));
    }
    t.push_str("macro m_0() -> c_0() <-\nstart:\nc_101()\n");
    v.push(t);
    v
}

const POISON: [&str; 14] = [
    "mov ax,, 5",
    "mov ax, 5",
    "jmp nowhere",
    "call nothing",
    "print mem 5 -> 1",
    "print reg",
    "db 300",
    "db [5, 3]",
    "set 70000",
    "int 99",
    "ret",
    "",
    "\u{e9}\u{e9}\u{e9}",
    "rep movs byte",
];

fn make_multi_case(r: &mut Rng, seed: u64, run: u64, baton: bool) -> Option<Case> {
    let k = r.urange(2, 4);
    let mut machines = Vec::new();
    for _ in 0..k {
        let mut feat = Feat::swarm(r, 55);
        feat.tf = false;
        feat.rep |= r.chance(40);
        feat.procs |= r.chance(40);
        let cfg = GenCfg { feat, layout: Layout::plain(), body_lo: 2, body_hi: *r.pick(&[6, 12, 20]) };
        let mut tries = 0;
        let text = loop {
            let mut pr = r.fork("program");
            let prog = generate(&mut pr, &cfg);
            let text = prog.render();
            if assemble_count(&text).is_some() {
                break Some(text);
            }
            tries += 1;
            if tries > 10 {
                break None;
            }
        }?;
        let mut stdin = String::new();
        for _ in 0..r.urange(0, 4) {
            let n = r.urange(0, 12);
            for i in 0..n {
                stdin.push((b'a' + ((i as u8 + r.below(26) as u8) % 26)) as char);
            }
            stdin.push('\n');
        }
        machines.push(Machine { source: text, stdin });
    }
    let fuel = 400;
    // order vector: runs of random length so that switches land at arbitrary points
    let mut order = Vec::new();
    let len = r.urange(20, 300);
    while order.len() < len {
        let m = r.usize_below(k);
        let burst = match r.below(3) {
            0 => 1,
            1 => r.urange(1, 4),
            _ => r.urange(1, 25),
        };
        for _ in 0..burst {
            order.push(m);
        }
    }
    let mut inject = Vec::new();
    let n_inj = r.urange(0, 8);
    for _ in 0..n_inj {
        let at = r.usize_below(len);
        let inj = match r.below(6) {
            0 => Inject::MachineCreate,
            1 => Inject::MachineDrop,
            _ => {
                if r.chance(35) {
                    let ps = poison_sources();
                    Inject::PoisonLine(r.pick(&ps).clone())
                } else {
                    Inject::PoisonLine((*r.pick(&POISON)).to_owned())
                }
            }
        };
        inject.push((at, inj));
    }
    inject.sort_by_key(|x| x.0);
    let reuse_contexts = r.chance(50);
    let spec = MultiSpec { machines, order, inject, threads: if baton { "baton".to_owned() } else { "none".to_owned() }, fuel, reuse_contexts };
    let mut case = Case::new("C19", "multi", seed, run, Scenario::new(b""));
    case.config = if baton { "baton_threads".to_owned() } else { "sequential".to_owned() };
    case.faults = vec!["poison_line".to_owned(), "machine_create".to_owned(), "machine_drop".to_owned(), "thread_switch".to_owned()];
    if !baton {
        case.faults.pop();
    }
    case.multi = Some(spec);
    Some(case)
}

fn exit_kind(h: &History) -> String {
    match h.ended() {
        Some(Event::Exit(c)) => format!("exit({})", c),
        Some(Event::Return) => "return".to_owned(),
        Some(Event::Panic { file, line, .. }) => format!("panic@{}:{}", file, line),
        Some(Event::Fuel) => "fuel".to_owned(),
        _ => "none".to_owned(),
    }
}

pub fn judge_env(case: &Case, ex: &Exec) -> Vec<Violation> {
    let mut v = Vec::new();
    let base = &ex.h;
    if base.out_of_fuel() {
        return v;
    }
    let base_out = base.records_text();
    let base_probes: Vec<(usize, [u16; 14])> = base
        .events
        .iter()
        .filter_map(|e| match e {
            Event::Probe { idx, regs, .. } => Some((*idx, *regs)),
            _ => None,
        })
        .collect();
    let base_mem = base.final_mem();
    for (a, ah) in case.alts.iter().zip(ex.alts.iter()) {
        if a.role != "env" {
            continue;
        }
        // what was varied, for the class
        let mut varied = Vec::new();
        if a.scn.hash_seed != case.scn.hash_seed {
            varied.push("hash");
        }
        if !a.scn.stdin.plan.is_empty() || a.scn.stdin.bufreader_cap != case.scn.stdin.bufreader_cap {
            varied.push("stdin_delivery");
        }
        if !a.scn.stdout.plan.is_empty() {
            varied.push("short_write");
        }
        if a.scn.warm_thread != case.scn.warm_thread {
            varied.push("thread");
        }
        if a.scn.dirty_heap != case.scn.dirty_heap {
            varied.push("heap");
        }
        if a.scn.clock != case.scn.clock {
            varied.push("clock");
        }
        let out = ah.records_text();
        if out != base_out {
            let p = out.bytes().zip(base_out.bytes()).position(|(x, y)| x != y).unwrap_or(out.len().min(base_out.len()));
            let ctx = |s: &str| -> String {
                let st = p.saturating_sub(30);
                let b = s.as_bytes();
                String::from_utf8_lossy(&b[st.min(b.len())..(p + 60).min(b.len())]).into_owned()
            };
            v.push(Violation::new(
                "C19:env_dependent_output",
                format!(
                    "the same source and input give different output when only the environment changes ({}): {:?} vs {:?}",
                    varied.join("+"), ctx(&base_out), ctx(&out)
                ),
            ));
            continue;
        }
        if &ah.raw_out != &base.raw_out {
            v.push(Violation::new(
                "C19:env_dependent_output",
                format!("raw output bytes differ when only the environment changes ({})", varied.join("+")),
            ));
            continue;
        }
        if exit_kind(ah) != exit_kind(base) {
            v.push(Violation::new(
                "C19:env_dependent_exit",
                format!("run ends with {} in one environment and {} in another ({})", exit_kind(base), exit_kind(ah), varied.join("+")),
            ));
            continue;
        }
        let probes: Vec<(usize, [u16; 14])> = ah
            .events
            .iter()
            .filter_map(|e| match e {
                Event::Probe { idx, regs, .. } => Some((*idx, *regs)),
                _ => None,
            })
            .collect();
        if probes != base_probes || ah.final_mem() != base_mem {
            v.push(Violation::new(
                "C19:env_dependent_state",
                format!("machine state differs when only the environment changes ({})", varied.join("+")),
            ));
        }
    }
    v
}
