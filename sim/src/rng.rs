//! The only source of randomness in the harness: splitmix64 + xoshiro256**.
//! Implemented here so that the stream never changes under us (a seed is a replayable run).

#[inline]
pub fn splitmix64(x: u64) -> u64 {
    let mut z = x.wrapping_add(0x9E37_79B9_7F4A_7C15);
    z = (z ^ (z >> 30)).wrapping_mul(0xBF58_476D_1CE4_E5B9);
    z = (z ^ (z >> 27)).wrapping_mul(0x94D0_49BB_1331_11EB);
    z ^ (z >> 31)
}

pub fn fnv1a(bytes: &[u8]) -> u64 {
    let mut h: u64 = 0xcbf2_9ce4_8422_2325;
    for b in bytes {
        h ^= *b as u64;
        h = h.wrapping_mul(0x0000_0100_0000_01B3);
    }
    h
}

/// per-run seed: a pure function of (VERIF_SEED, property/stream name, run index)
pub fn run_seed(verif_seed: u64, stream: &str, run: u64) -> u64 {
    splitmix64(
        splitmix64(verif_seed) ^ fnv1a(stream.as_bytes()) ^ run.wrapping_mul(0x9E37_79B9_7F4A_7C15),
    )
}

#[derive(Clone, Debug)]
pub struct Rng {
    s: [u64; 4],
}

impl Rng {
    pub fn new(seed: u64) -> Rng {
        let mut x = seed;
        let mut s = [0u64; 4];
        for v in s.iter_mut() {
            x = splitmix64(x);
            *v = x;
        }
        if s == [0, 0, 0, 0] {
            s[0] = 1;
        }
        Rng { s }
    }

    #[inline]
    pub fn next_u64(&mut self) -> u64 {
        let result = self.s[1].wrapping_mul(5).rotate_left(7).wrapping_mul(9);
        let t = self.s[1] << 17;
        self.s[2] ^= self.s[0];
        self.s[3] ^= self.s[1];
        self.s[1] ^= self.s[2];
        self.s[0] ^= self.s[3];
        self.s[2] ^= t;
        self.s[3] = self.s[3].rotate_left(45);
        result
    }

    /// independent sub-stream: adding a draw in one generator part does not reshuffle the others
    pub fn fork(&mut self, tag: &str) -> Rng {
        let a = self.next_u64();
        Rng::new(a ^ fnv1a(tag.as_bytes()))
    }

    /// uniform in 0..n (n > 0)
    pub fn below(&mut self, n: u64) -> u64 {
        debug_assert!(n > 0);
        // multiply-shift; bias is irrelevant for test generation
        ((self.next_u64() as u128 * n as u128) >> 64) as u64
    }

    pub fn usize_below(&mut self, n: usize) -> usize {
        self.below(n as u64) as usize
    }

    /// uniform in lo..=hi
    pub fn range(&mut self, lo: u64, hi: u64) -> u64 {
        lo + self.below(hi - lo + 1)
    }

    pub fn urange(&mut self, lo: usize, hi: usize) -> usize {
        self.range(lo as u64, hi as u64) as usize
    }

    /// true with probability pct/100
    pub fn chance(&mut self, pct: u64) -> bool {
        self.below(100) < pct
    }

    pub fn pick<'a, T>(&mut self, xs: &'a [T]) -> &'a T {
        &xs[self.usize_below(xs.len())]
    }

    pub fn shuffle<T>(&mut self, xs: &mut [T]) {
        for i in (1..xs.len()).rev() {
            let j = self.usize_below(i + 1);
            xs.swap(i, j);
        }
    }
}
