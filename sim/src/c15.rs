//! C15: any input text is answered with a result or a diagnostic.
//! What is simulated: the stored source file under storage faults (truncation at every byte,
//! torn write between two versions, bit/byte corruption, lost/duplicated/zeroed blocks, CRLF
//! and BOM mangling, copy-paste Unicode substitutions, size blow-ups), then the real pipeline
//! the CLI runs on it, under the simulated console with a script of `next`s then EOF.
use crate::case::*;
use crate::gen::*;
use crate::history::*;
use crate::rng::{run_seed, Rng};
use crate::runner::{panic_key, Exec, Stats};
use crate::scenario::*;
use emulator_8086_lib::{DataParser, Interpreter, InterpreterContext, Preprocessor, PreprocessorContext, PreprocessorOutput, VM};

const EXAMPLES: [&str; 9] = [
    "addition.s",
    "data_transfer.s",
    "factorial.s",
    "hello_world.s",
    "interrupt.s",
    "lcm_gcd.s",
    "macro.s",
    "min_max.s",
    "sort.s",
];

pub const TROUBLE: [u8; 24] = [
    b'"', b'[', b']', b'(', b')', b'{', b'}', b':', b';', b',', b'-', b'<', b'>', 0, b'\t', b'\r', 0x7f,
    0x80, 0xc3, 0xe2, 0xff, b'0', b'9', b'@',
];

fn examples() -> Vec<(String, Vec<u8>)> {
    let mut v = Vec::new();
    for f in EXAMPLES.iter() {
        if let Ok(b) = std::fs::read(format!("/repo/examples/{}", f)) {
            v.push((f.to_string(), b));
        }
    }
    v
}

/// size of the enumerated truncation space: every cut point of every example, with and without
/// a newline re-appended
pub fn truncation_space() -> u64 {
    SCALING_FAMILIES.len() as u64 + parser_enum_cases() + extreme_operand_cases() + extreme_addressing_cases() + examples().iter().map(|(_, b)| (b.len() as u64 + 1) * 2).sum::<u64>()
}

/// size of the enumerated single-byte replacement space (thorough tier)
pub fn replacement_space() -> u64 {
    examples().iter().filter(|(_, b)| b.len() <= 1024).map(|(_, b)| b.len() as u64 * TROUBLE.len() as u64).sum()
}

fn script() -> Vec<u8> {
    let mut s = Vec::new();
    for i in 0..60 {
        if i % 7 == 3 {
            s.extend_from_slice(b"print reg\n");
        }
        s.extend_from_slice(b"n\n");
    }
    s
}

fn storage_case(seed: u64, run: u64, source: Vec<u8>, faults: Vec<String>, interpreted: bool) -> Case {
    let mut scn = Scenario::new(&source);
    scn.interpreted = interpreted;
    scn.fuel = 1500;
    // mostly a long script of next / print reg; sometimes stdin is closed from the start, or runs
    // dry after a few lines (a program that reads more than there is must still end)
    scn.stdin.bytes = Bytes(match run % 8 {
        3 => Vec::new(),
        6 => b"n\nhello\n".to_vec(),
        _ => script(),
    });
    scn.storage_faults = faults.clone();
    let mut c = Case::new("C15", "storage", seed, run, scn);
    c.config = "faulted".to_owned();
    c.faults = faults.iter().map(|f| f.split('(').next().unwrap_or(f).to_owned()).collect();
    c.faults.sort();
    c.faults.dedup();
    // a few lines of the stored file go straight to the four parsers as well
    let text = String::from_utf8_lossy(&source).into_owned();
    let lines: Vec<&str> = text.split('\n').collect();
    let n = lines.len();
    let mut picks = Vec::new();
    if n > 0 {
        for k in 0..6usize {
            let i = (run as usize).wrapping_mul(31).wrapping_add(k * 7919) % n;
            let l = lines[i];
            if l.len() < 4000 && !picks.iter().any(|x: &String| x == l) {
                picks.push(l.to_owned());
            }
        }
    }
    c.parser_inputs = picks;
    c
}

/// CPU time of the calling thread in microseconds (load on the machine does not count)
pub fn thread_cpu_us() -> u64 {
    let mut ts = libc::timespec { tv_sec: 0, tv_nsec: 0 };
    // SAFETY: plain libc call filling a local struct
    let r = unsafe { libc::clock_gettime(libc::CLOCK_THREAD_CPUTIME_ID, &mut ts) };
    if r != 0 {
        return 0;
    }
    ts.tv_sec as u64 * 1_000_000 + ts.tv_nsec as u64 / 1000
}

pub const SCALING_FAMILIES: [&str; 14] = [
    "forward_jumps", "backward_jumps", "labels", "macro_uses", "data_bytes", "procedures", "prints", "comment_lines", "undefined_then_error",
    "mem_dump_bytes",
    // one long line: here the size is the length of a single line (16 n characters)
    "line_quote_then_semicolons", "line_semicolons", "line_quotes", "line_commas",
];

/// a program of "size n" of one family; cost must grow in proportion to n
fn scaling_program(family: &str, n: usize) -> String {
    let mut t = String::with_capacity(n * 24);
    match family {
        "forward_jumps" => {
            t.push_str("start:\n");
            for i in 0..n {
                t.push_str(&format!("jmp F_{}\n", i));
            }
            for i in 0..n {
                t.push_str(&format!("F_{}:\n", i));
            }
            t.push_str("print reg\n");
        }
        "backward_jumps" => {
            for i in 0..n {
                t.push_str(&format!("B_{}:\n", i));
            }
            t.push_str("jmp start\n");
            for i in 0..n {
                t.push_str(&format!("je B_{}\n", i));
            }
            t.push_str("start:\nprint reg\n");
        }
        "labels" => {
            t.push_str("start:\n");
            for i in 0..n {
                t.push_str(&format!("L_{}: inc ax\n", i));
            }
        }
        "macro_uses" => {
            t.push_str("macro m(a) -> add bx, a <-\nstart:\n");
            for i in 0..n {
                t.push_str(&format!("m({})\n", i % 200));
            }
        }
        "data_bytes" => {
            for i in 0..n {
                t.push_str(&format!("db {}\n", i % 256));
            }
            t.push_str("start:\nprint mem : 8\n");
        }
        "procedures" => {
            for i in 0..n {
                t.push_str(&format!("def p_{} {{ inc ax }}\n", i));
            }
            t.push_str("start:\ncall p_0\n");
        }
        "prints" => {
            t.push_str("start:\n");
            for _ in 0..n {
                t.push_str("print flags\n");
            }
        }
        "mem_dump_bytes" => {
            // here the size is the length of what one statement prints: 14 n bytes of memory
            // (n = 18 000: a quarter of the memory against nearly all of it)
            t.push_str(&format!("start:\nmov byte [5], 7\nprint mem 0 -> {}\n", (14 * n).min(1 << 20) - 1));
        }
        "line_quote_then_semicolons" | "line_semicolons" | "line_quotes" | "line_commas" => {
            // a string that is never closed followed by comment signs; a line of comment signs;
            // a line of quotes; a statement with far too many commas
            let (head, tok) = match family {
                "line_quote_then_semicolons" => ("db \"", ";"),
                "line_semicolons" => ("", ";"),
                "line_quotes" => ("db ", "\""),
                _ => ("start:\nmov ax", ","),
            };
            t.push_str(head);
            for _ in 0..16 * n {
                t.push_str(tok);
            }
            t.push_str("\nstart:\ninc ax\n");
        }
        "comment_lines" => {
            t.push_str("start:\n");
            for i in 0..n {
                t.push_str(&format!("  ; comment number {} with a : and a , in it\n", i));
            }
            t.push_str("inc ax\n");
        }
        _ => {
            // undefined_then_error
            t.push_str("start:\n");
            for i in 0..n {
                t.push_str(&format!("jne U_{}\n", i));
            }
            t.push_str("mov ax,, 1\n");
        }
    }
    t
}

/// `simctl rss <family> <n>`: assemble and run one program of that size in this process and leave
/// (the supervisor reads the peak resident set of the process from /usr/bin/time)
pub fn rss_main(args: &[String]) -> i32 {
    let family = args.get(0).cloned().unwrap_or_default();
    let n: usize = args.get(1).and_then(|x| x.parse().ok()).unwrap_or(1);
    let r = std::thread::Builder::new().stack_size(64 << 20).spawn(move || {
        let mut scn = Scenario::new(scaling_program(&family, n).as_bytes());
        scn.fuel = 1500;
        let (h, _) = crate::world::run_here(&scn, None);
        if h.panic().is_some() {
            3
        } else {
            0
        }
    });
    r.ok().and_then(|t| t.join().ok()).unwrap_or(2)
}

/// peak resident set (KiB) of a fresh process that handles one program of `family` at size `n`
fn peak_rss_kib(family: &str, n: usize) -> Option<u64> {
    let exe = std::env::current_exe().ok()?;
    let out = std::process::Command::new("/usr/bin/time")
        .arg("-f")
        .arg("RSSKIB %M")
        .arg(exe)
        .arg("rss")
        .arg(family)
        .arg(n.to_string())
        .stdin(std::process::Stdio::null())
        .stdout(std::process::Stdio::null())
        .output()
        .ok()?;
    let err = String::from_utf8_lossy(&out.stderr).into_owned();
    err.lines().rev().find_map(|l| l.strip_prefix("RSSKIB ").and_then(|x| x.trim().parse::<u64>().ok()))
}

/// Memory proportional to the input (thorough tier): every size family at n and 4n in fresh
/// processes; the growth over an empty program may be at most tenfold (and must exceed 256 MiB
/// to matter). Returns (table for the evidence, violations).
pub fn memory_scaling(thorough: bool) -> (serde_json::Value, Vec<(String, String)>) {
    let mut table = serde_json::Map::new();
    let mut viols = Vec::new();
    let base = match peak_rss_kib("labels", 1) {
        Some(b) => b,
        None => return (serde_json::json!({ "status": "not measured (/usr/bin/time unavailable)" }), viols),
    };
    table.insert("empty_program_kib".to_owned(), serde_json::json!(base));
    for family in SCALING_FAMILIES.iter() {
        if *family == "mem_dump_bytes" || family.starts_with("line_") {
            // (the input is three lines; what grows is the recorded history, which is the harness' memory)
            continue;
        }
        let n = match (*family, thorough) {
            ("macro_uses", _) => 250,
            ("prints", _) => 350,
            (_, true) => 100_000,
            (_, false) => 6_000,
        };
        let (small, big) = match (peak_rss_kib(family, n), peak_rss_kib(family, 4 * n)) {
            (Some(a), Some(b)) => (a, b),
            _ => continue,
        };
        table.insert((*family).to_owned(), serde_json::json!({ "lines": n, "kib": small, "lines_x4": 4 * n, "kib_x4": big }));
        let ds = small.saturating_sub(base).max(8 * 1024);
        let db = big.saturating_sub(base);
        if db > 256 * 1024 && db > 10 * ds {
            // once more before it is reported
            if let (Some(a), Some(b)) = (peak_rss_kib(family, n), peak_rss_kib(family, 4 * n)) {
                let ds2 = a.saturating_sub(base).max(8 * 1024);
                let db2 = b.saturating_sub(base);
                if db2 > 256 * 1024 && db2 > 10 * ds2 {
                    viols.push((
                        format!("C15:memory_superlinear{{size_{}}}", family),
                        format!("a program four times the size ({} lines) needs {} MiB more than an empty one, against {} MiB for {} lines: memory is not proportional to the input", 4 * n, db2 / 1024, ds2 / 1024, n),
                    ));
                }
            }
        }
    }
    (serde_json::Value::Object(table), viols)
}

fn scaling_case(seed: u64, run: u64, k: usize, thorough: bool) -> Case {
    let family = SCALING_FAMILIES[k % SCALING_FAMILIES.len()];
    // every macro use builds a parser of its own (milliseconds): keep that family small
    let n = match (family, thorough) {
        ("macro_uses", false) => 60,
        ("macro_uses", true) => 250,
        ("prints", false) => 300,
        ("prints", true) => 350,
        ("mem_dump_bytes", _) => 18_000,
        // (quick: 4n = 70 000 lines, so that the big one also passes 65 535 instructions / labels / bytes)
        (_, false) => 17_500,
        (_, true) => 100_000,
    };
    let big = scaling_program(family, 4 * n);
    let small = scaling_program(family, n);
    let mut scn = Scenario::new(big.as_bytes());
    scn.fuel = 1500;
    scn.storage_faults = vec![format!("size_family({},{})", family, 4 * n)];
    let mut c = Case::new("C15", "scaling", seed, run, scn);
    c.config = "size_scaling".to_owned();
    c.faults = vec![format!("size_{}", family)];
    let mut a = Scenario::new(small.as_bytes());
    a.fuel = 1500;
    a.storage_faults = vec![format!("size_family({},{})", family, n)];
    c.alts.push(AltRun { role: "scale_small".to_owned(), scn: a, gen: None });
    c
}

/// IR lines of every shape the three run-time parsers accept (what the assembler hands them)
const IR_SHAPES: [&str; 54] = [
    "db 9", "db -9", "db [7]", "db [5, 3]", "db \"xy\"", "dw 9", "dw -9", "dw [5]", "dw [513, 2]", "dw \"ab\"", "set 12",
    "print reg", "print flags", "print mem 0 -> 15", "print mem 5 : 3", "print mem : 7",
    "mov ax,5", "mov byte [250],7", "mov word [bx,si,4],300", "add al,-3", "int 33", "int 3", "jmp 4", "call 2", "ret 4",
    "rep movs byte", "shl ax,3", "rol bl,2", "in al,5", "lea ax,word [bx,8]",
    "sal bl,2", "sar bl,2", "shr bl,2", "ror bl,2", "rcl bl,2", "rcr bl,2", "sal cx,2", "sar cx,2", "shr cx,2", "rol cx,2", "ror cx,2", "rcl cx,2", "rcr cx,2",
    "shl byte [5],2", "sar word [5],2", "mul bl", "div bl", "idiv bl", "imul bl", "aam", "aad", "xlat", "push 5", "out 5,al",
];

/// enumerated: every number of every IR shape replaced by every extreme number (identical for all seeds)
fn enumerated_parser_strings() -> Vec<String> {
    let mut v = Vec::new();
    for shape in IR_SHAPES.iter() {
        // split into digit runs (with a leading '-') and the rest
        let b: Vec<char> = shape.chars().collect();
        let mut spans = Vec::new();
        let mut i = 0;
        let mut in_str = false;
        while i < b.len() {
            if b[i] == '"' {
                in_str = !in_str;
            }
            if !in_str && (b[i].is_ascii_digit() || (b[i] == '-' && i + 1 < b.len() && b[i + 1].is_ascii_digit())) {
                let st = i;
                i += 1;
                while i < b.len() && b[i].is_ascii_digit() {
                    i += 1;
                }
                spans.push((st, i));
            } else {
                i += 1;
            }
        }
        for (st, en) in spans {
            for x in EXTREME_NUMBERS.iter() {
                let mut t: String = b[..st].iter().collect();
                t.push_str(x);
                t.extend(b[en..].iter());
                v.push(t);
            }
        }
        v.push((*shape).to_owned());
    }
    v
}

const XO_OPS: [&str; 14] = [
    "div bl", "idiv bl", "div bx", "idiv bx", "mul bl", "imul bl", "mul bx", "imul bx", "aam", "aad", "div byte [5]", "idiv byte [5]", "div word [5]", "idiv word [5]",
];
const XO_DX: [u16; 5] = [0, 1, 0x7FFF, 0x8000, 0xFFFF];
const XO_V: [u16; 8] = [0, 1, 0x7F, 0x80, 0xFF, 0x7FFF, 0x8000, 0xFFFF];

pub fn extreme_operand_cases() -> u64 {
    (XO_OPS.len() * XO_DX.len() * XO_V.len() * XO_V.len()) as u64
}

fn extreme_operand_program(k: usize) -> String {
    let op = XO_OPS[k % XO_OPS.len()];
    let k = k / XO_OPS.len();
    let dx = XO_DX[k % XO_DX.len()];
    let k = k / XO_DX.len();
    let ax = XO_V[k % XO_V.len()];
    let bx = XO_V[(k / XO_V.len()) % XO_V.len()];
    format!("start:\nmov dx, {}\nmov ax, {}\nmov bx, {}\nmov word [5], bx\n{}\nprint reg\nprint flags\n", dx, ax, bx, op)
}

const XA_OPS: [&str; 31] = [
    "lea si, word [bx]", "lea si, word [bx, -4]", "lea si, word [bx, si, 3]", "lea si, word [bp]", "lea si, word [bp, di, -1]", "lea dx, word es[di]", "lea dx, word ss[bx]",
    "lea dx, word cs[si]", "lea dx, word [0xFFFF]", "lea dx, word es[0xFFFF]", "mov ax, word [bx]", "mov word [bx, si, 3], ax", "mov al, byte es[di]", "inc byte [bp]",
    "shl word [bx], 1", "mul byte [bx]", "xchg ax, word [bx]", "add word [bx, -4], 1", "movs byte", "movs word", "stos word", "lods word", "cmps byte", "scas word", "xlat",
    "push ax", "pop ax", "pushf", "popf", "rep movs byte", "call f",
];
/// (DS, ES, SS)
const XA_SEGS: [(u16, u16, u16); 6] = [(0, 0, 0), (0x1000, 0, 0), (0x1000, 0x2000, 0x0001), (0xF000, 0xFFFF, 0xFFFF), (0xFFFF, 0, 0x0001), (0xFFFF, 0xFFFF, 0xFFFF)];
const XA_REGS: [u16; 5] = [0, 2, 0x7FFF, 0xFFFE, 0xFFFF];
const XA_IDX: [u16; 2] = [0, 0xFFFF];

pub fn extreme_addressing_cases() -> u64 {
    (XA_OPS.len() * XA_SEGS.len() * XA_REGS.len() * XA_IDX.len()) as u64
}

/// one memory-touching (or address-forming) instruction with segments and pointers at the edges
fn extreme_addressing_program(k: usize) -> String {
    let op = XA_OPS[k % XA_OPS.len()];
    let k = k / XA_OPS.len();
    let (ds, es, ss) = XA_SEGS[k % XA_SEGS.len()];
    let k = k / XA_SEGS.len();
    let r = XA_REGS[k % XA_REGS.len()];
    let x = XA_IDX[(k / XA_REGS.len()) % XA_IDX.len()];
    format!(
        "def f {{ inc ax }}\nstart:\nmov ax, {}\nmov es, ax\nmov ax, {}\nmov ss, ax\nmov ax, {}\nmov ds, ax\nmov bx, {}\nmov bp, {}\nmov sp, {}\nmov si, {}\nmov di, {}\nmov cx, 3\nmov ax, 0x1234\n{}\nprint reg\n",
        es, ss, ds, r, r, r, x, x, op
    )
}

const PARSER_ENUM_CHUNK: usize = 40;

pub fn parser_enum_cases() -> u64 {
    ((enumerated_parser_strings().len() + PARSER_ENUM_CHUNK - 1) / PARSER_ENUM_CHUNK) as u64
}

pub fn make_case(seed: u64, run: u64, thorough: bool, _stats: &mut Stats) -> Option<Case> {
    // ---- enumerated part 0: the size families, once each (identical for all seeds)
    if (run as usize) < SCALING_FAMILIES.len() {
        return Some(scaling_case(seed, run, run as usize, thorough));
    }
    let run_orig = run;
    let run = run - SCALING_FAMILIES.len() as u64;
    let _ = run_orig;
    // ---- enumerated part 0b: extreme numbers in every IR shape, straight to the parsers
    let npe = parser_enum_cases();
    if run < npe {
        let all = enumerated_parser_strings();
        let from = run as usize * PARSER_ENUM_CHUNK;
        let mut scn = Scenario::new(b"start:\nhlt\n");
        scn.fuel = 100;
        let mut c = Case::new("C15", "parser", seed, run_orig, scn);
        c.config = "enumerated_parser_strings".to_owned();
        c.faults = vec!["ir_extreme_numbers".to_owned()];
        c.parser_inputs = all[from..(from + PARSER_ENUM_CHUNK).min(all.len())].to_vec();
        return Some(c);
    }
    let run = run - npe;
    // ---- enumerated part 0c: the multiply / divide / adjust family on extreme operands, as tiny
    // source files (a file is "processed" until its program has run: an operand combination that
    // aborts the emulator is an abort on that file)
    let nxo = extreme_operand_cases();
    if run < nxo {
        let src = extreme_operand_program(run as usize);
        let mut c = storage_case(seed, run_orig, src.into_bytes(), vec!["extreme_operands".to_owned()], false);
        c.config = "enumerated_extreme_operands".to_owned();
        return Some(c);
    }
    let run = run - nxo;
    // ---- enumerated part 0d: one memory-touching instruction each, segments and pointers at the edges
    let nxa = extreme_addressing_cases();
    if run < nxa {
        let src = extreme_addressing_program(run as usize);
        let mut c = storage_case(seed, run_orig, src.into_bytes(), vec!["extreme_addressing".to_owned()], false);
        c.config = "enumerated_extreme_addressing".to_owned();
        return Some(c);
    }
    let run = run - nxa;
    let ex = examples();
    // ---- enumerated part 1: truncation points (identical for all seeds)
    let mut i = run;
    for (name, b) in &ex {
        let span = (b.len() as u64 + 1) * 2;
        if i < span {
            let cut = (i / 2) as usize;
            let nl = i % 2 == 1;
            let mut src = b[..cut].to_vec();
            let mut faults = vec![format!("truncate_at({},{})", name, cut)];
            if nl {
                src.push(b'\n');
                faults.push("newline_reappended".to_owned());
            }
            let mut c = storage_case(seed, run, src, faults, cut % 2 == 1);
            c.kind = "storage".to_owned();
            c.config = "enumerated_truncation".to_owned();
            return Some(c);
        }
        i -= span;
    }
    // ---- enumerated part 2 (thorough): every trouble byte at every position
    if thorough {
        for (name, b) in &ex {
            if b.len() > 1024 {
                continue;
            }
            let span = b.len() as u64 * TROUBLE.len() as u64;
            if i < span {
                let pos = (i / TROUBLE.len() as u64) as usize;
                let t = TROUBLE[(i % TROUBLE.len() as u64) as usize];
                let mut src = b.clone();
                src[pos] = t;
                let mut c = storage_case(seed, run, src, vec![format!("byte_garbage({},{},{:#04x})", name, pos, t)], pos % 2 == 1);
                c.config = "enumerated_replacement".to_owned();
                return Some(c);
            }
            i -= span;
        }
    }
    // ---- seeded part
    let rs = run_seed(seed, "C15", run);
    let mut r = Rng::new(rs);
    if r.chance(12) {
        return parser_case(seed, run, &mut r, thorough);
    }
    if r.chance(8) {
        // an intact program that talks to the console, with no input, too little input or plenty:
        // a service or a prompt that meets the end of input must still let the run end
        let mut feat = Feat::swarm(&mut r, 50);
        feat.int21 = true;
        feat.int10 |= r.chance(50);
        feat.int3 |= r.chance(30);
        feat.tf = r.chance(15);
        feat.flags_under_tf = true;
        let cfg = GenCfg { feat, layout: Layout::swarm(&mut r), body_lo: 2, body_hi: *r.pick(&[4, 10, 20]) };
        let mut pr = r.fork("program");
        let p = generate(&mut pr, &cfg);
        let mut c = storage_case(seed, run, p.render().into_bytes(), vec![], r.chance(40));
        c.scn.stdin.bytes = Bytes(match r.below(4) {
            0 => Vec::new(),
            1 => b"x\n".to_vec(),
            2 => b"n\nn\nhello".to_vec(),
            _ => script(),
        });
        c.config = "console_program_intact".to_owned();
        c.faults = vec!["stdin_runs_dry".to_owned()];
        return Some(c);
    }
    let base = |r: &mut Rng| -> (String, Vec<u8>) {
        if r.chance(45) && !ex.is_empty() {
            ex[r.usize_below(ex.len())].clone()
        } else {
            let mut feat = Feat::swarm(r, 55);
            // programs that switch single-stepping on by themselves (and may leave it on to the end)
            feat.tf = r.chance(20);
            feat.flags_under_tf = true;
            let cfg = GenCfg { feat, layout: Layout::swarm(r), body_lo: 1, body_hi: *r.pick(&[4, 10, 25]) };
            let mut pr = r.fork("program");
            let p = generate(&mut pr, &cfg);
            ("generated".to_owned(), p.render().into_bytes())
        }
    };
    let (name, mut src) = base(&mut r);
    let mut faults = Vec::new();
    // one case in ten stores the file intact: a valid program is an input text too
    let nf = if r.chance(10) { 0 } else if r.chance(60) { 1 } else { r.urange(2, 3) };
    for _ in 0..nf {
        let len = src.len();
        match r.below(22) {
            20 | 21 => {
                // names in roles they were not made for: `start` as a data label, jumps and calls
                // to data labels, offsets and memory operands of code labels, a procedure and a
                // label of the same name, a macro named like a label, everything defined twice
                let defs: [&str; 8] = ["start: db 1", "buffer: db [16]", "start: dw [3]", "x: db 2", "buffer: db [300]", "start: db \"entry\"", "set 0x20", "y: dw 7"];
                let odd: [&str; 9] = ["x:", "def x { inc ax }", "macro x() -> inc bx <-", "jmp buffer", "call buffer", "call x", "mov ax, offset x", "x()", "jmp x"];
                let mut t = String::new();
                for _ in 0..r.urange(1, 4) {
                    t.push_str(*r.pick(&defs));
                    t.push('\n');
                }
                if r.chance(35) {
                    t.push_str("start:\n");
                }
                for _ in 0..r.urange(0, 2) {
                    if r.chance(30) {
                        t.push_str(*r.pick(&odd));
                        t.push('\n');
                    }
                }
                for _ in 0..r.urange(1, 5) {
                    t.push_str(*r.pick(&["inc ax", "print reg", "mov bx, offset buffer", "hlt", "mov al, byte x", "mov cx, 3", "print mem : 4"]));
                    t.push('\n');
                }
                src = t.into_bytes();
                faults.push("label_roles".to_owned());
            }
            18 | 19 => {
                // one very long line: a statement (sound or not), then blanks up to a round byte
                // offset where a multi-byte blank sits, then more
                let target = *r.pick(&[64usize, 128, 255, 256, 257, 512, 1024, 4096, 65536]);
                let stmt = *r.pick(&["mov ax,, 1", "print reg", "mov bl, 300", "jmp nowhere_far", "mov ax, 1", "int 3", "mov bx, @"]);
                let k = target.saturating_sub(1 + stmt.len()).max(1);
                let wide = *r.pick(&["\u{a0}", "\u{2003}", "\u{a0}\u{a0}\u{2003}"]);
                let tail = if r.chance(50) { " mov cx, 2" } else { "" };
                let nl = if r.chance(50) { "\n" } else { "" };
                src = format!("start:\n{}{}{}{}{}", stmt, " ".repeat(k), wide, tail, nl).into_bytes();
                faults.push(format!("long_line_multibyte_at({})", target));
            }
            16 | 17 => {
                // a random call graph of macros: any macro may use any other (or itself), earlier or
                // later in its body, so cycles of every shape occur - direct, through several
                // macros, closing through a later sibling use after an earlier one has returned,
                // through names that differ only in case. The answer must be a diagnostic.
                let n = r.urange(1, 6);
                let names: Vec<String> = (0..n).map(|k| if r.chance(25) { format!("MC_{}", k) } else { format!("mc_{}", k) }).collect();
                let arity: Vec<usize> = (0..n).map(|_| r.urange(0, 2)).collect();
                let wrong_arity = r.chance(15);
                let mut t = String::new();
                for k in 0..n {
                    let params: Vec<String> = (0..arity[k]).map(|q| format!("v_{}", q)).collect();
                    let items = r.urange(1, 3);
                    let mut body = Vec::new();
                    for _ in 0..items {
                        if r.chance(60) {
                            let callee = r.usize_below(n);
                            let na = if wrong_arity && r.chance(30) { r.urange(0, 3) } else { arity[callee] };
                            let args: Vec<String> = (0..na)
                                .map(|q| if !params.is_empty() && r.chance(50) { params[q % params.len()].clone() } else { format!("{}", r.below(9)) })
                                .collect();
                            body.push(format!("{}({})", names[callee], args.join(",")));
                        } else {
                            let src = if !params.is_empty() { params[0].clone() } else { "1".to_owned() };
                            body.push(format!("mov ax, {}", src));
                        }
                    }
                    t.push_str(&format!("macro {}({}) -> {} <-\n", names[k], params.join(","), body.join(" ")));
                }
                t.push_str("start:\n");
                for _ in 0..r.urange(1, 3) {
                    let callee = r.usize_below(n);
                    let args: Vec<String> = (0..arity[callee]).map(|_| format!("{}", r.below(9))).collect();
                    t.push_str(&format!("{}({})\n", names[callee], args.join(",")));
                }
                t.push_str("print reg\n");
                src = t.into_bytes();
                faults.push(format!("macro_call_graph({})", n));
            }
            0 => {
                if len > 0 {
                    let p = r.usize_below(len);
                    let bit = r.below(8) as u8;
                    src[p] ^= 1 << bit;
                    faults.push(format!("bit_flip({},{},{})", name, p, bit));
                }
            }
            1 | 2 => {
                if len > 0 {
                    let p = r.usize_below(len);
                    let t = *r.pick(&TROUBLE);
                    src[p] = t;
                    faults.push(format!("byte_garbage({},{},{:#04x})", name, p, t));
                }
            }
            3 => {
                // torn write: a new version written over the old one, interrupted at k
                let (n2, other) = base(&mut r);
                let k = if r.chance(50) { (r.usize_below(other.len().max(1)) / 512) * 512 } else { r.usize_below(other.len().max(1)) };
                let mut t = other[..k.min(other.len())].to_vec();
                if k < src.len() {
                    t.extend_from_slice(&src[k..]);
                }
                src = t;
                faults.push(format!("torn_write({}->{},{})", name, n2, k));
            }
            4 => {
                if len > 0 {
                    let bs = *r.pick(&[64usize, 512]);
                    let p = r.usize_below(len);
                    for x in src[p..(p + bs).min(len)].iter_mut() {
                        *x = 0;
                    }
                    faults.push(format!("zero_block({},{},{})", name, p, bs));
                }
            }
            5 => {
                if len > 0 {
                    let bs = *r.pick(&[64usize, 512]);
                    let p = r.usize_below(len);
                    let blk = src[p..(p + bs).min(len)].to_vec();
                    let at = (p + bs).min(len);
                    src.splice(at..at, blk);
                    faults.push(format!("dup_block({},{},{})", name, p, bs));
                }
            }
            6 => {
                if len > 0 {
                    let bs = *r.pick(&[64usize, 512]);
                    let p = r.usize_below(len);
                    src.drain(p..(p + bs).min(len));
                    faults.push(format!("lost_block({},{},{})", name, p, bs));
                }
            }
            7 => {
                let mut t = Vec::with_capacity(len + 64);
                for b in &src {
                    if *b == b'\n' {
                        t.push(b'\r');
                    }
                    t.push(*b);
                }
                src = t;
                faults.push("crlf_convert".to_owned());
            }
            8 => {
                let mut t = vec![0xEF, 0xBB, 0xBF];
                t.extend_from_slice(&src);
                src = t;
                faults.push("bom_prefix".to_owned());
            }
            9 => {
                while src.last() == Some(&b'\n') || src.last() == Some(&b'\r') {
                    src.pop();
                }
                faults.push("drop_final_newline".to_owned());
            }
            10 => {
                if len > 0 {
                    let p = r.usize_below(len);
                    src[p] = *r.pick(&[0xffu8, 0xfe, 0xc0, 0x80]);
                    faults.push(format!("non_utf8({},{})", name, p));
                }
            }
            11 | 12 => {
                // what copy-paste through a browser or word processor does
                let n = r.urange(1, 4);
                for _ in 0..n {
                    let len = src.len();
                    if len == 0 {
                        break;
                    }
                    let start = r.usize_below(len);
                    let (find, repl): (u8, &str) = *r.pick(&[
                        (b' ', "\u{a0}"),
                        (b'\n', "\u{2028}"),
                        (b'"', "\u{201c}"),
                        (b'-', "\u{2013}"),
                        (b' ', "\u{2003}"),
                        (b'\t', "\u{a0}"),
                    ]);
                    if let Some(off) = src[start..].iter().position(|b| *b == find).map(|o| o + start).or_else(|| src.iter().position(|b| *b == find)) {
                        src.splice(off..off + 1, repl.bytes());
                    }
                }
                faults.push("unicode_paste".to_owned());
            }
            13 => {
                // size: many lines
                let n = if thorough { *r.pick(&[1000usize, 20000, 100000]) } else { *r.pick(&[200usize, 2000]) };
                let line = *r.pick(&["mov ax, 1\n", "inc bx ; c\n", "\n", "print reg\n", "jmp start\n"]);
                for _ in 0..n {
                    src.extend_from_slice(line.as_bytes());
                }
                faults.push(format!("repeat_lines({})", n));
            }
            14 => {
                // size: a chain of macros each using the previous one
                let depth = if thorough { *r.pick(&[64usize, 512, 4096]) } else { *r.pick(&[8usize, 32, 64]) };
                let mut t = String::new();
                t.push_str("macro c_0() -> inc ax <-\n");
                for d in 1..=depth {
                    t.push_str(&format!("macro c_{}() -> c_{}() <-\n", d, d - 1));
                }
                t.push_str(&format!("start:\nc_{}()\nprint reg\n", depth));
                src = t.into_bytes();
                faults.push(format!("macro_chain_depth({})", depth));
            }
            _ => {
                // size: huge numbers, long strings, big arrays
                let n = if thorough { *r.pick(&[100usize, 10000, 100000]) } else { *r.pick(&[20usize, 300, 5000]) };
                let t = match r.below(5) {
                    0 => format!("start:\nmov ax, {}\n", "9".repeat(n)),
                    1 => format!("d: db \"{}\"\nstart:\nprint mem : 4\n", "a".repeat(n)),
                    2 => format!("start:\nprint mem 0x{} -> 5\n", "F".repeat(n)),
                    3 => {
                        let mut s = String::new();
                        for _ in 0..(n / 10).max(2) {
                            s.push_str("db [65535]\n");
                        }
                        s.push_str("x: db 1\nstart:\nmov al, byte x\n");
                        s
                    }
                    _ => format!("start:\nmov ax, 0b{}\n", "1".repeat(n)),
                };
                src = t.into_bytes();
                faults.push(format!("digit_run({})", n));
            }
        }
    }
    let mut c = storage_case(seed, run, src, faults, r.chance(50));
    c.scn.stack_kib = *r.pick(&[2048usize, 4096, 8192, 8192]);
    c.config = if nf == 0 { "fault_free".to_owned() } else { "seeded_faults".to_owned() };
    Some(c)
}

const EXTREME_NUMBERS: [&str; 31] = [
    "0", "-0", "1", "7", "8", "9", "16", "17", "00000000000000000000000000000007", "127", "128", "-128", "255", "256", "-129", "32767", "32768", "-32768", "65535", "65536", "-32769", "-65535", "1048575", "1048576",
    "4294967296", "18446744073709551616", "99999999999999999999999999999999999999", "0x", "0xFFFFFFFFFFFFFFFFF", "0b", "0b2",
];

/// IR lines (what the assembler hands to the data loader, the interpreter and the print reader)
/// of a generated program, damaged token by token, plus a few lines damaged byte by byte. This
/// sub-part is plain input mutation (the property quantifies over strings given directly to the
/// four parsers); it is reported as such in the evidence.
fn parser_case(seed: u64, run: u64, r: &mut Rng, thorough: bool) -> Option<Case> {
    let mut feat = Feat::swarm(r, 60);
    feat.prints = true;
    feat.data = true;
    let cfg = GenCfg { feat, layout: Layout::plain(), body_lo: 3, body_hi: 20 };
    let mut pr = r.fork("program");
    let p = generate(&mut pr, &cfg);
    let text = p.render();
    let mut ir: Vec<String> = Vec::new();
    {
        let re = regex::Regex::new(r";.*\n?").unwrap();
        let unc = re.replace_all(&text, "\n").to_string();
        let pre = Preprocessor::new();
        let mut ctx = PreprocessorContext::default();
        let mut out = PreprocessorOutput::default();
        if pre.parse(&mut ctx, &mut out, &unc).is_ok() {
            ir.extend(out.code.iter().cloned());
            ir.extend(out.data.iter().cloned());
        }
    }
    ir.extend(["print mem 0 -> 15", "print mem 5 : 3", "print mem : 7", "print reg", "print flags", "db [5, 3]", "dw [5]", "dw [513, 2]", "db [7]", "dw 9", "db 9", "db \"xy\"", "dw \"ab\"", "set 12", "rep movs byte", "int 33"].iter().map(|s| s.to_string()));
    let mut inputs: Vec<String> = Vec::new();
    let n = if thorough { 60 } else { 30 };
    for _ in 0..n {
        let base = r.pick(&ir).clone();
        let toks: Vec<&str> = base.split(' ').collect();
        let m = match r.below(12) {
            0 | 1 | 2 | 3 => {
                // a number token replaced by an extreme one (or, failing that, appended)
                let nums: Vec<usize> = toks.iter().enumerate().filter(|(_, t)| t.chars().next().map(|c| c.is_ascii_digit() || c == '-').unwrap_or(false)).map(|(i, _)| i).collect();
                let big = if r.chance(10) { "9".repeat(if thorough { 100_000 } else { 3000 }) } else { (*r.pick(&EXTREME_NUMBERS)).to_owned() };
                if nums.is_empty() {
                    format!("{} {}", base, big)
                } else {
                    let k = *r.pick(&nums);
                    let mut t: Vec<String> = toks.iter().map(|x| x.to_string()).collect();
                    t[k] = big;
                    t.join(" ")
                }
            }
            4 => toks[..r.usize_below(toks.len() + 1)].join(" "),
            5 => {
                let mut t: Vec<&str> = toks.clone();
                let k = r.usize_below(t.len() + 1);
                t.insert(k, *r.pick(&["[", "]", "\"", ",", ":", "->", "(", ")", "{", "}", "-", "word", "byte", "offset", "cs:", "es"]));
                t.join(" ")
            }
            6 => {
                let mut t: Vec<&str> = toks.clone();
                if !t.is_empty() {
                    let k = r.usize_below(t.len());
                    t.remove(k);
                }
                t.join(" ")
            }
            7 => format!("{} {}", base, base),
            8 => {
                let mut b = base.clone().into_bytes();
                if !b.is_empty() {
                    let k = r.usize_below(b.len());
                    b[k] = *r.pick(&TROUBLE);
                }
                String::from_utf8_lossy(&b).into_owned()
            }
            9 => (*r.pick(&["", " ", "\t", "\n", "\"", "\"\"", "[", "[[[[[[[[[[[[[[[[", "db \"", "dw [", "print mem", "print mem ->", "print mem 1 :", "\u{e9}", "\u{a0}mov ax, 1", "mov\u{2028}ax, 1"])).to_owned(),
            10 => base.to_ascii_uppercase(),
            _ => base.replace(' ', "  "),
        };
        if m.len() < 200_000 && !inputs.contains(&m) {
            inputs.push(m);
        }
    }
    let mut scn = Scenario::new(b"start:\nhlt\n");
    scn.fuel = 100;
    let mut c = Case::new("C15", "parser", seed, run, scn);
    c.config = "direct_parser_strings".to_owned();
    c.faults = vec!["ir_token_mutation".to_owned()];
    c.parser_inputs = inputs;
    Some(c)
}

thread_local! {
    static PARSERS: (Preprocessor, DataParser, Interpreter, crate::driver::print::PrintParser) =
        (Preprocessor::new(), DataParser::new(), Interpreter::new(), crate::driver::print::PrintParser::new());
}

/// (parser, input, panic key) for every direct parser call that aborted
pub fn direct_parsers(inputs: &[String]) -> Vec<(String, String, String)> {
    use crate::driver::sim_io;
    let mut out = Vec::new();
    crate::world::install_panic_hook();
    struct Null(u64);
    impl sim_io::Console for Null {
        fn emit(&mut self, _: &'static str, _: u32, text: &str) {
            // the print reader writes as it goes: endless output is a hang, not a result
            self.0 += text.len() as u64;
            if self.0 > crate::world::MAX_BYTES_PER_STATEMENT {
                std::panic::resume_unwind(Box::new(crate::world::SimSpin));
            }
        }
        fn flush(&mut self) -> std::io::Result<()> {
            Ok(())
        }
        fn read_line(&mut self, _: sim_io::Caller, _: &mut String) -> std::io::Result<usize> {
            Ok(0)
        }
        fn probe(&mut self, _: usize, _: &str, _: &VM) -> bool {
            false
        }
        fn exit(&mut self, _: i32) {}
    }
    PARSERS.with(|p| {
        for text in inputs {
            for which in 0..4 {
                let _ = crate::world::take_last_panic();
                let r = std::panic::catch_unwind(std::panic::AssertUnwindSafe(|| match which {
                    0 => {
                        let mut ctx = PreprocessorContext::default();
                        let mut o = PreprocessorOutput::default();
                        let _ = p.0.parse(&mut ctx, &mut o, text);
                    }
                    1 => {
                        let mut vm = VM::new();
                        let mut ctr = 0usize;
                        let _ = p.1.parse(&mut vm, &mut ctr, text);
                    }
                    2 => {
                        let mut vm = VM::new();
                        let mut ictx = InterpreterContext::default();
                        let _ = p.2.parse(0, &mut vm, &mut ictx, text);
                    }
                    _ => {
                        let vm = VM::new();
                        let prev = sim_io::install(Box::new(Null(0)));
                        let _ = crate::multi::print_with(&p.3, &vm, text);
                        let _ = sim_io::uninstall();
                        if let Some(c) = prev {
                            sim_io::install(c);
                        }
                    }
                }));
                if let Err(payload) = r {
                    let _ = sim_io::uninstall();
                    let key = if payload.is::<crate::world::SimSpin>() {
                        "endless_output".to_owned()
                    } else {
                        crate::world::take_last_panic().map(|(_, f, l)| panic_key(&f, l)).unwrap_or_else(|| "?".to_owned())
                    };
                    let name = ["preprocessor", "data_loader", "interpreter", "print_reader"][which];
                    out.push((name.to_owned(), text.clone(), key));
                }
            }
        }
    });
    out
}

pub fn judge(case: &Case, ex: &Exec) -> Vec<Violation> {
    let mut v = Vec::new();
    let h = &ex.h;
    if let Some((msg, file, line)) = h.panic() {
        v.push(Violation::new(
            format!("C15:panic@{}", panic_key(file, line)),
            format!("the emulator aborted on this source file: {} at {}:{}", msg, file, line),
        ));
    } else if h.ended().is_none() {
        v.push(Violation::new("C15:hang", "the run neither returned nor exited (unbounded output or prompt spin)".to_string()));
    } else if h.n_probes() == 0 && matches!(h.ended(), Some(Event::Return)) {
        // the program was not executed: there must be a diagnostic
        let diag = h.events.iter().any(|e| match e {
            Event::Rec { origin, text, .. } => matches!(origin, Origin::RunLoop | Origin::Main | Origin::Other) && !text.trim().is_empty(),
            _ => false,
        });
        if !diag {
            v.push(Violation::new("C15:silent_failure", "the program was not executed and no diagnostic was printed".to_string()));
        }
    }
    // a run loop that executes the same non-control instruction twice in a row from the same
    // complete machine state, without consuming input in between, will do so forever
    if let Some((idx, code)) = driver_fixed_point(h) {
        v.push(Violation::new(
            format!("C15:hang{{fixed_point;{}}}", code_class(&code)),
            format!("instruction #{} ({}) was executed again from an identical machine state: the run can never end", idx, code),
        ));
    }
    for (parser, text, key) in &ex.parser_panics {
        let t: String = text.chars().take(120).collect();
        if key == "endless_output" {
            v.push(Violation::new(
                format!("C15:hang{{direct:{}}}", parser),
                format!("the {} never stops writing for the string {:?}", parser, t),
            ));
            continue;
        }
        v.push(Violation::new(
            format!("C15:panic@{}{{direct:{}}}", key, parser),
            format!("the {} aborted on the string {:?} ({})", parser, t, key),
        ));
    }
    // time proportional to the input, relative form: four times the size, at most ten times the
    // CPU time (and more than a second of it), measured three times
    if case.kind == "scaling" && !ex.alt_cpu_us.is_empty() {
        let family = case.faults.get(0).cloned().unwrap_or_default();
        if std::env::var("SIM_SCALE_DEBUG").is_ok() {
            println!("scaling {}: big {} us, small {} us", family, ex.cpu_us, ex.alt_cpu_us[0]);
        }
        let ratio_bad = |big: u64, small: u64| big > 1_000_000 && big > 10 * small.max(1);
        if ratio_bad(ex.cpu_us, ex.alt_cpu_us[0]) {
            let mut all = true;
            let mut last = (ex.cpu_us, ex.alt_cpu_us[0]);
            for _ in 0..2 {
                // heartbeat for the supervisor's watchdog: this is slow on purpose
                println!("K re-measuring a size family");
                let t0 = thread_cpu_us();
                let _ = crate::world::run_here(&case.scn, None);
                let t1 = thread_cpu_us();
                let _ = crate::world::run_here(&case.alts[0].scn, None);
                let t2 = thread_cpu_us();
                last = (t1 - t0, t2 - t1);
                if !ratio_bad(last.0, last.1) {
                    all = false;
                    break;
                }
            }
            if all {
                v.push(Violation::new(
                    format!("C15:superlinear{{{}}}", family),
                    format!(
                        "a program four times the size costs {} ms of CPU against {} ms: time is not proportional to the input ({})",
                        last.0 / 1000, last.1 / 1000, case.scn.storage_faults.join(",")
                    ),
                ));
            }
        }
        // the small one must be answered properly too
        if let Some(a) = ex.alts.get(0) {
            if let Some((msg, file, line)) = a.panic() {
                v.push(Violation::new(
                    format!("C15:panic@{}", panic_key(file, line)),
                    format!("the emulator aborted on this source file: {} at {}:{}", msg, file, line),
                ));
            }
        }
    }
    // time proportional to the input: generous budget, re-measured before it is reported
    // (thread CPU time, not wall time: a busy machine must not raise an alarm; output counts as
    // input here, a statement may legitimately print a megabyte)
    let n = case.scn.source.0.len() as u64;
    let recs = h.events.len() as u64;
    let budget_us = 2_000_000 + 50 * n + 10 * recs;
    if case.kind != "scaling" && ex.cpu_us > budget_us && !h.out_of_fuel() {
        let mut all = true;
        let mut last = ex.cpu_us;
        for _ in 0..3 {
            let (_, c) = crate::world::run_cli_cpu(&case.scn);
            last = c;
            if c <= budget_us {
                all = false;
                break;
            }
        }
        if all {
            v.push(Violation::new(
                "C15:superlinear",
                format!("processing {} bytes ({} console events) took {} ms of CPU (budget {} ms), re-measured three times", n, recs, last / 1000, budget_us / 1000),
            ));
        }
    }
    v
}

/// Two consecutive run-loop iterations at the same instruction, with identical registers and
/// memory and no input consumed in between, for an instruction that is not a control transfer
/// (a program may legitimately jump to itself) and not a REP iteration.
pub fn driver_fixed_point(h: &History) -> Option<(usize, String)> {
    let mut prev: Option<(usize, &str, &[u16; 14])> = None;
    let mut input_between = false;
    for e in &h.events {
        match e {
            Event::Line { res: LineRes::Ok(_), .. } => input_between = true,
            Event::Probe { idx, code, regs, mem } => {
                if let Some((pi, pc, pr)) = prev {
                    if pi == *idx && pr == regs && mem.is_empty() && !input_between {
                        let cls = code_class(pc);
                        if !matches!(cls, "jump" | "call" | "ret" | "rep" | "hlt") {
                            return Some((pi, pc.to_owned()));
                        }
                    }
                }
                prev = Some((*idx, code.as_str(), regs));
                input_between = false;
            }
            _ => {}
        }
    }
    None
}
