//! Oracles over recorded histories. An oracle demands only what its property states;
//! where the text is silent every reasonable reading is accepted (see DESIGN.md §6.0).
use crate::case::*;
use crate::history::*;
use crate::scenario::*;

pub const TF_BIT: u16 = 1 << 8;

pub struct Seg<'a> {
    /// position of the probe event in the history
    pub pos: usize,
    pub idx: usize,
    pub code: &'a str,
    pub regs: [u16; 14],
    pub delta: &'a [(u32, u8)],
    /// events after the probe up to (excluding) the next probe
    pub events: &'a [Event],
    /// true when another probe follows (the instruction completed and the run went on)
    pub followed: bool,
}

pub fn segments(h: &History) -> (&[Event], Vec<Seg<'_>>) {
    let pp: Vec<usize> = h.probes().map(|(i, _)| i).collect();
    if pp.is_empty() {
        return (&h.events[..], vec![]);
    }
    let mut v = Vec::with_capacity(pp.len());
    for (k, &p) in pp.iter().enumerate() {
        let end = if k + 1 < pp.len() { pp[k + 1] } else { h.events.len() };
        if let Event::Probe { idx, code, regs, mem } = &h.events[p] {
            v.push(Seg {
                pos: p,
                idx: *idx,
                code,
                regs: *regs,
                delta: mem,
                events: &h.events[p + 1..end],
                followed: k + 1 < pp.len(),
            });
        }
    }
    (&h.events[..pp[0]], v)
}

/// One call of the prompt: its reads and everything printed while it was open
pub struct PromptSession<'a> {
    pub lines: Vec<&'a LineRes>,
    /// index (within the segment's events) of the first and one-past-last event
    pub from: usize,
    pub to: usize,
}

/// The run was ended at the prompt of this (last) instruction, before it executed: the last thing
/// read there was a quit command, the end of input or a read error, and neither the printer nor a
/// service did anything afterwards. How the emulator then leaves - `process::exit` or a return
/// from the run loop - is its own business.
pub fn stopped_at_prompt(s: &Seg, sessions: &[PromptSession]) -> bool {
    if s.followed {
        return false;
    }
    let last = match sessions.last() {
        Some(l) => l,
        None => return false,
    };
    let ended = match last.lines.last() {
        Some(LineRes::Eof) | Some(LineRes::Err(_)) => true,
        Some(LineRes::Ok(t)) => matches!(classify_prompt_line(t), PromptCmd::Quit),
        None => false,
    };
    ended
        && !s.events[last.to.min(s.events.len())..].iter().any(|e| {
            matches!(e, Event::Rec { origin: Origin::Printer, .. } | Event::Rec { origin: Origin::Service, .. } | Event::Line { who: Who::Service, .. })
        })
}

/// Prompt sessions inside one segment: maximal runs of prompt/printer/raw events that contain
/// at least one prompt-level read; two sessions are always separated by a run-loop record.
pub fn prompt_sessions<'a>(events: &'a [Event]) -> Vec<PromptSession<'a>> {
    let mut out = Vec::new();
    let mut cur: Option<PromptSession<'a>> = None;
    let mut run_start = 0usize;
    for (i, e) in events.iter().enumerate() {
        let boundary = match e {
            // whoever prints it: a heading that names a line, after input has been read, opens
            // the next session (a driver may print its headings from the prompt module)
            Event::Rec { origin: Origin::Prompt, text, .. } if cur.is_some() && cited_line(text).is_some() => {
                if let Some(mut s) = cur.take() {
                    s.to = i;
                    out.push(s);
                }
                run_start = i;
                continue;
            }
            Event::Rec { origin, .. } => !matches!(origin, Origin::Prompt | Origin::Printer),
            Event::Line { who: Who::Service, .. } => true,
            Event::Exit(_) | Event::Return | Event::Panic { .. } | Event::Fuel => true,
            _ => false,
        };
        if boundary {
            if let Some(mut s) = cur.take() {
                s.to = i;
                out.push(s);
            }
            run_start = i + 1;
            continue;
        }
        if let Event::Line { who: Who::Prompt, res } = e {
            match cur.as_mut() {
                Some(s) => s.lines.push(res),
                None => cur = Some(PromptSession { lines: vec![res], from: run_start, to: i + 1 }),
            }
        }
    }
    if let Some(mut s) = cur.take() {
        s.to = events.len();
        out.push(s);
    }
    out
}

#[derive(Clone, Debug, PartialEq, Eq)]
pub enum PrintCmd {
    Reg,
    Flags,
    /// a -> b
    Range(u64, u64),
    /// a : n
    Len(u64, u64),
    /// : n
    DsLen(u64),
}

#[derive(Clone, Debug, PartialEq, Eq)]
pub enum PromptCmd {
    Next,
    Quit,
    Print(PrintCmd),
    /// surely not a command
    Garbage,
    /// the oracle does not know what the prompt should make of it
    Unknown,
}

fn parse_num(tok: &str, all_radices: bool) -> Option<u64> {
    let t = tok;
    if all_radices && (t.starts_with("0x") || t.starts_with("0X")) {
        return u64::from_str_radix(&t[2..], 16).ok();
    }
    if all_radices && (t.starts_with("0b") || t.starts_with("0B")) && t.len() > 2 {
        return u64::from_str_radix(&t[2..], 2).ok();
    }
    if !t.is_empty() && t.bytes().all(|b| b.is_ascii_digit()) {
        return t.parse::<u64>().ok();
    }
    None
}

/// Tokenise the way a whitespace-skipping lexer does: words, numbers, "->", ":"
fn tokens(s: &str) -> Option<Vec<String>> {
    let mut out = Vec::new();
    let b: Vec<char> = s.chars().collect();
    let mut i = 0;
    while i < b.len() {
        let c = b[i];
        if c.is_whitespace() {
            i += 1;
        } else if c.is_ascii_alphanumeric() {
            let st = i;
            while i < b.len() && b[i].is_ascii_alphanumeric() {
                i += 1;
            }
            out.push(b[st..i].iter().collect());
        } else if c == '-' && i + 1 < b.len() && b[i + 1] == '>' {
            out.push("->".to_owned());
            i += 2;
        } else if c == ':' {
            out.push(":".to_owned());
            i += 1;
        } else {
            return None;
        }
    }
    Some(out)
}

/// Parse a print command from lower-cased text. `all_radices`: program route.
pub fn parse_print(text: &str, all_radices: bool) -> Option<PrintCmd> {
    let toks = tokens(text)?;
    let t: Vec<&str> = toks.iter().map(|s| s.as_str()).collect();
    match t.as_slice() {
        ["print", "reg"] => Some(PrintCmd::Reg),
        ["print", "flags"] => Some(PrintCmd::Flags),
        ["print", "mem", a, "->", b] => {
            Some(PrintCmd::Range(parse_num(a, all_radices)?, parse_num(b, all_radices)?))
        }
        ["print", "mem", a, ":", n] => {
            Some(PrintCmd::Len(parse_num(a, all_radices)?, parse_num(n, all_radices)?))
        }
        ["print", "mem", ":", n] => Some(PrintCmd::DsLen(parse_num(n, all_radices)?)),
        _ => None,
    }
}

/// What a line typed at the prompt means, as far as the property text says
pub fn classify_prompt_line(line: &str) -> PromptCmd {
    let t = line.trim().to_ascii_lowercase();
    if t == "n" || t == "next" {
        return PromptCmd::Next;
    }
    if t == "q" || t == "quit" {
        return PromptCmd::Quit;
    }
    // a command word followed by more words is not that command ("next please", "n 2", "quit it"):
    // it is rejected like anything else
    {
        let w: Vec<&str> = t.split_whitespace().collect();
        if w.len() >= 2 && matches!(w[0], "n" | "next" | "q" | "quit") && t.chars().all(|c| c.is_ascii()) {
            return PromptCmd::Garbage;
        }
    }
    // only plainly spelled commands are claimed: single blanks between words, decimal numbers
    if t.starts_with("print") {
        let words: Vec<&str> = t.split(' ').collect();
        let plain = words.iter().all(|w| !w.is_empty());
        if plain {
            if let Some(c) = parse_print(&t, false) {
                return PromptCmd::Print(c);
            }
        }
        return PromptCmd::Unknown;
    }
    if t.is_empty() || !t.starts_with('p') {
        if t.chars().all(|c| c.is_ascii()) && !t.starts_with('n') && !t.starts_with('q') {
            return PromptCmd::Garbage;
        }
    }
    PromptCmd::Unknown
}

pub fn src_lines(scn: &Scenario) -> Vec<String> {
    let s = String::from_utf8_lossy(&scn.source.0).into_owned();
    s.split('\n').map(|l| l.trim_end_matches('\r').to_owned()).collect()
}

/// expected text of a source line as the driver shows it: comment stripped
pub fn shown_text(line: &str) -> String {
    let t = match line.find(';') {
        Some(p) => &line[..p],
        None => line,
    };
    t.trim().to_owned()
}

/// the line number a run-time message cites, if it cites one
pub fn cited_line(text: &str) -> Option<u64> {
    // "line <n>" or "at <n>"
    let b = text.as_bytes();
    let mut i = 0;
    while i < b.len() {
        for kw in ["line", "at"].iter() {
            let k = kw.as_bytes();
            if b.len() >= i + k.len()
                && b[i..i + k.len()].eq_ignore_ascii_case(k)
                && (i == 0 || !b[i - 1].is_ascii_alphanumeric())
            {
                let mut j = i + k.len();
                let ws = j;
                while j < b.len() && (b[j] == b' ' || b[j] == b'\t') {
                    j += 1;
                }
                if j > ws {
                    let st = j;
                    while j < b.len() && b[j].is_ascii_digit() {
                        j += 1;
                    }
                    if j > st && (j == b.len() || !b[j].is_ascii_alphanumeric()) {
                        return text[st..j].parse().ok();
                    }
                }
            }
        }
        i += 1;
    }
    None
}

/// The run loop's messages of one segment as whole lines: a message may be written in several
/// pieces (several print! calls) or several messages in one; what counts is the text up to each
/// line end. Pieces are joined while they follow each other without another writer in between.
pub fn runloop_lines(events: &[Event]) -> Vec<String> {
    let mut out = Vec::new();
    let mut buf = String::new();
    let flush = |buf: &mut String, out: &mut Vec<String>| {
        if !buf.is_empty() {
            out.push(std::mem::take(buf));
        }
    };
    for e in events {
        match e {
            // (the driver's own voice: the run loop and the prompt file - a notice may be written by
            // either; program output - printer, services - never counts)
            Event::Rec { origin: Origin::RunLoop, text, .. } | Event::Rec { origin: Origin::Prompt, text, .. } => {
                for ch in text.chars() {
                    if ch == '\n' {
                        buf.push('\n');
                        flush(&mut buf, &mut out);
                    } else {
                        buf.push(ch);
                    }
                }
            }
            Event::Rec { .. } | Event::Line { .. } | Event::Probe { .. } => flush(&mut buf, &mut out),
            _ => {}
        }
    }
    flush(&mut buf, &mut out);
    out
}

fn stepping_active(scn: &Scenario, regs: &[u16; 14]) -> bool {
    scn.interpreted || regs[R_FLAGS] & TF_BIT != 0
}

fn is_int3(code: &str) -> bool {
    code.trim() == "int 3"
}

fn instr_kind(gen: &GenInfo, idx: usize) -> String {
    gen.idx_class.get(idx).cloned().unwrap_or_else(|| "appended_hlt".to_owned())
}

// ---------------------------------------------------------------------------------------
// C16: run-time messages cite the right line

pub fn check_c16(case: &Case, h: &History) -> Vec<Violation> {
    let mut v = Vec::new();
    let gen = match &case.gen {
        Some(g) => g,
        None => return v,
    };
    let lines = src_lines(&case.scn);
    let (_, segs) = segments(h);
    if gen.tags.iter().any(|t| t == "count_mismatch") {
        return check_c16_without_table(&lines, &segs);
    }
    let n = gen.idx_line.len();
    for s in &segs {
        if s.idx >= n {
            continue; // the appended hlt has no source line
        }
        let want = gen.idx_line[s.idx] as u64;
        let want_text = lines.get(want as usize - 1).map(|l| shown_text(l)).unwrap_or_default();
        let kind = instr_kind(gen, s.idx);
        for text in runloop_lines(s.events).iter() {
            {
                if text.starts_with("Internal Error") {
                    continue;
                }
                if let Some(c) = cited_line(text) {
                    if c != want {
                        v.push(Violation::new(
                            format!("C16:wrong_line{{{};{}}}", msg_kind(text), kind),
                            format!(
                                "message {:?} cites line {} but instruction #{} ({}) comes from line {} ({:?})",
                                text.trim_end(), c, s.idx, s.code, want, want_text
                            ),
                        ));
                    } else if msg_has_text(text) && !want_text.is_empty() && !text.contains(&want_text) {
                        v.push(Violation::new(
                            format!("C16:wrong_text{{{};{}}}", msg_kind(text), kind),
                            format!(
                                "message {:?} cites line {} but does not show its text {:?}",
                                text.trim_end(), c, want_text
                            ),
                        ));
                    }
                }
            }
        }
    }
    v
}

/// The assembler emitted another number of instructions than the generator counted, so the
/// instruction -> line table is void. What can still be said: a message that cites line L while
/// instruction I executes is wrong when line L cannot have produced I - it neither contains the
/// mnemonic of I (jumps, loops and repeat prefixes by family; a return also by a closing brace)
/// nor uses a macro.
fn check_c16_without_table(lines: &[String], segs: &[Seg]) -> Vec<Violation> {
    let mut v = Vec::new();
    for s in segs {
        let m = s.code.trim().split(|c: char| c == ' ' || c == ',').next().unwrap_or("").to_ascii_lowercase();
        if m.is_empty() {
            continue;
        }
        for text in runloop_lines(s.events).iter() {
            if text.starts_with("Internal Error") {
                continue;
            }
            let c = match cited_line(text) {
                Some(c) if c >= 1 => c as usize,
                _ => continue,
            };
            let line = match lines.get(c - 1) {
                Some(l) => shown_text(l).to_ascii_lowercase(),
                None => {
                    v.push(Violation::new(
                        format!("C16:wrong_line{{{};beyond_the_file}}", msg_kind(text)),
                        format!("message {:?} cites line {} of a file of {} lines", text.trim_end(), c, lines.len()),
                    ));
                    continue;
                }
            };
            let words: Vec<&str> = line.split(|ch: char| !(ch.is_ascii_alphanumeric() || ch == '_')).filter(|w| !w.is_empty()).collect();
            let family = |w: &str| -> bool {
                if m.starts_with("rep") {
                    w.starts_with("rep")
                } else if m.starts_with("loop") {
                    w.starts_with("loop")
                } else if m.starts_with('j') {
                    w.starts_with('j')
                } else if m == "sal" || m == "shl" {
                    w == "sal" || w == "shl"
                } else {
                    w == m
                }
            };
            let can = words.iter().any(|w| family(w)) || line.contains('(') || (m == "ret" && line.contains('}'));
            if !can {
                v.push(Violation::new(
                    format!("C16:wrong_line{{{};no_such_instruction_on_line}}", msg_kind(text)),
                    format!(
                        "message {:?} cites line {} ({:?}) while instruction #{} ({}) executes: that line cannot have produced it (the assembler emitted another number of instructions than the program has, so only this much can be checked)",
                        text.trim_end(), c, line, s.idx, s.code
                    ),
                ));
            }
        }
    }
    v
}

fn msg_kind(text: &str) -> &'static str {
    if text.starts_with("About to execute") {
        "single_step"
    } else if text.starts_with("Output of line") {
        "output_of_line"
    } else if text.starts_with("Int 3") {
        "int3"
    } else if text.starts_with("Attempt to divide") {
        "divide_error"
    } else if text.starts_with("Error at line") {
        "unsupported_int"
    } else {
        "other"
    }
}

/// messages that quote the line text after the number, in the layout "… <n> : <text>": whatever
/// follows the cited number must start with a colon for the message to count as quoting the line
/// (a message that only names the number, or goes on with other words, claims no text)
fn msg_has_text(text: &str) -> bool {
    let n = match cited_line(text) {
        Some(n) => n.to_string(),
        None => return false,
    };
    // the cited number is the first occurrence of its digits as a whole number after line/at
    let mut from = 0;
    while let Some(p) = text[from..].find(&n) {
        let st = from + p;
        let en = st + n.len();
        let before_ok = st == 0 || !text.as_bytes()[st - 1].is_ascii_alphanumeric();
        let after_ok = en == text.len() || !text.as_bytes()[en].is_ascii_alphanumeric();
        if before_ok && after_ok {
            let rest = text[en..].trim_start();
            return rest.starts_with(':') && !rest[1..].trim().is_empty();
        }
        from = en;
    }
    false
}

// ---------------------------------------------------------------------------------------
// C17: print shows the true state and never changes it

fn reg_fields(text: &str) -> Vec<(String, String)> {
    // NAME : 0xHHHH
    let mut out = Vec::new();
    let b: Vec<char> = text.chars().collect();
    let mut i = 0;
    while i + 1 < b.len() {
        if b[i].is_ascii_uppercase() && b[i + 1].is_ascii_uppercase()
            && (i == 0 || !b[i - 1].is_ascii_alphanumeric())
            && (i + 2 >= b.len() || !b[i + 2].is_ascii_alphanumeric())
        {
            let name: String = b[i..i + 2].iter().collect();
            let mut j = i + 2;
            while j < b.len() && (b[j] == ' ' || b[j] == '\t') {
                j += 1;
            }
            if j < b.len() && (b[j] == ':' || b[j] == '=') {
                j += 1;
                while j < b.len() && (b[j] == ' ' || b[j] == '\t') {
                    j += 1;
                }
                let st = j;
                while j < b.len() && (b[j].is_ascii_alphanumeric()) {
                    j += 1;
                }
                out.push((name, b[st..j].iter().collect()));
                i = j;
                continue;
            }
        }
        i += 1;
    }
    out
}

const PRINT_REGS: [(&str, usize); 12] = [
    ("AX", R_AX), ("BX", R_BX), ("CX", R_CX), ("DX", R_DX), ("SP", R_SP), ("BP", R_BP),
    ("SI", R_SI), ("DI", R_DI), ("CS", R_CS), ("DS", R_DS), ("SS", R_SS), ("ES", R_ES),
];
const PRINT_FLAGS: [(&str, u16); 9] = [
    ("OF", 1 << 11), ("DF", 1 << 10), ("IF", 1 << 9), ("TF", 1 << 8), ("SF", 1 << 7),
    ("ZF", 1 << 6), ("AF", 1 << 4), ("PF", 1 << 2), ("CF", 1),
];

/// The bytes of a hex dump: the rows are the lines whose every token is two hex digits; a line
/// that is something else (a heading, a summary) is not part of the dump and is left alone.
/// None when there is text but not a single row.
/// The bytes of one row of a dump: two-digit hex tokens, optionally behind an address column -
/// at most two leading tokens that cannot be mistaken for a byte (a hexadecimal address of three
/// or more digits with or without `0x` and a trailing `:` or `|`, or bare punctuation). Anything
/// else on the line and it is not a row.
fn row_bytes(line: &str) -> Option<Vec<u8>> {
    let toks: Vec<&str> = line.split_whitespace().collect();
    if toks.is_empty() {
        return None;
    }
    let is_byte = |t: &str| t.len() == 2 && t.bytes().all(|b| b.is_ascii_hexdigit());
    let is_addr = |t: &str| {
        let t = t.trim_end_matches(|c| c == ':' || c == '|');
        let d = t.strip_prefix("0x").or_else(|| t.strip_prefix("0X")).unwrap_or(t);
        d.len() >= 3 && d.bytes().all(|b| b.is_ascii_hexdigit())
    };
    let is_punct = |t: &str| !t.is_empty() && t.bytes().all(|b| matches!(b, b'|' | b':' | b'>' | b'-'));
    let mut k = 0;
    while k < toks.len() && k < 2 && !is_byte(toks[k]) && (is_addr(toks[k]) || is_punct(toks[k])) {
        k += 1;
    }
    if k == toks.len() || !toks[k..].iter().all(|t| is_byte(t)) {
        return None;
    }
    Some(toks[k..].iter().map(|t| u8::from_str_radix(t, 16).unwrap()).collect())
}

fn dump_tokens(out: &str) -> Option<Vec<u8>> {
    let mut v = Vec::new();
    let mut rows = 0;
    let mut other = 0;
    for line in out.split('\n') {
        if line.trim().is_empty() {
            continue;
        }
        match row_bytes(line) {
            Some(b) => {
                rows += 1;
                v.extend(b);
            }
            None => other += 1,
        }
    }
    if rows == 0 && other > 0 {
        return None;
    }
    Some(v)
}

/// the rows of a dump only (for the layout check)
fn dump_rows(out: &str) -> Vec<usize> {
    out.split('\n').filter_map(row_bytes).map(|b| b.len()).collect()
}

/// Check the output of one print command against the probed state.
pub fn check_print_output(
    cmd: &PrintCmd,
    out: &str,
    regs: &[u16; 14],
    mem: &[u8],
    route: &str,
) -> Vec<Violation> {
    let mut v = Vec::new();
    match cmd {
        PrintCmd::Reg => {
            let f = reg_fields(out);
            for (name, ri) in PRINT_REGS.iter() {
                let hits: Vec<&(String, String)> = f.iter().filter(|(n, _)| n == name).collect();
                let want = format!("0x{:04X}", regs[*ri]);
                if hits.len() != 1 {
                    v.push(Violation::new(
                        format!("C17:reg_field{{{};{}}}", name, route),
                        format!("print reg shows {} {} times in {:?}", name, hits.len(), out),
                    ));
                } else if hits[0].1 != want {
                    v.push(Violation::new(
                        format!("C17:reg_field{{{};{}}}", name, route),
                        format!("print reg shows {} = {} but the register holds {}", name, hits[0].1, want),
                    ));
                }
            }
        }
        PrintCmd::Flags => {
            let f = reg_fields(out);
            for (name, bit) in PRINT_FLAGS.iter() {
                let hits: Vec<&(String, String)> = f.iter().filter(|(n, _)| n == name).collect();
                let want = if regs[R_FLAGS] & bit != 0 { "1" } else { "0" };
                if hits.len() != 1 {
                    v.push(Violation::new(
                        format!("C17:flag_field{{{};{}}}", name, route),
                        format!("print flags shows {} {} times in {:?}", name, hits.len(), out),
                    ));
                } else if hits[0].1 != want {
                    v.push(Violation::new(
                        format!("C17:flag_field{{{};{}}}", name, route),
                        format!("print flags shows {} = {} but the flag is {}", name, hits[0].1, want),
                    ));
                }
            }
        }
        PrintCmd::Range(..) | PrintCmd::Len(..) | PrintCmd::DsLen(..) => {
            let (form, a, b, beyond) = match cmd {
                PrintCmd::Range(a, b) => ("a->b", *a % MB as u64, *b % MB as u64, *a >= MB as u64 || *b >= MB as u64),
                PrintCmd::Len(a, n) => {
                    ("a:n", *a % MB as u64, (*a % MB as u64) + (*n % MB as u64), *a >= MB as u64 || *n >= MB as u64)
                }
                PrintCmd::DsLen(n) => {
                    let s = regs[R_DS] as u64 * 16;
                    (":n", s, s + (*n % MB as u64), *n >= MB as u64)
                }
                _ => unreachable!(),
            };
            let must_report = a > b || b >= MB as u64;
            let dump = dump_tokens(out);
            let is_dump = dump.is_some() && !out.trim().is_empty();
            if must_report {
                if out.trim().is_empty() {
                    v.push(Violation::new(
                        format!("C17:range_not_reported{{{};{}}}", form, route),
                        format!("range {}..{} is backwards or leaves the 1 MiB space but nothing was reported", a, b),
                    ));
                } else if is_dump {
                    v.push(Violation::new(
                        format!("C17:range_not_reported{{{};{}}}", form, route),
                        format!("range {}..{} is backwards or leaves the 1 MiB space but bytes were printed: {:?}", a, b, trunc(out)),
                    ));
                }
                return v;
            }
            // constants beyond 2^20: the wrap reading is accepted, and so is a report
            if beyond && !is_dump && !out.trim().is_empty() {
                return v;
            }
            let want: Vec<u8> = (a..=b).map(|x| mem[x as usize]).collect();
            match dump {
                None => v.push(Violation::new(
                    format!("C17:mem_bytes{{{};{}}}", form, route),
                    format!("print mem {}..{} produced something that is not a hex dump: {:?}", a, b, trunc(out)),
                )),
                Some(got) => {
                    if got != want {
                        let first = got.iter().zip(want.iter()).position(|(x, y)| x != y);
                        v.push(Violation::new(
                            format!("C17:mem_bytes{{{};{}}}", form, route),
                            format!(
                                "print mem {}..{} shows {} bytes, memory holds {}; first difference at offset {:?}",
                                a, b, got.len(), want.len(), first
                            ),
                        ));
                    } else {
                        // layout: upper-case, 16 per row except the last
                        // (byte tokens only: an address column may be written as it likes)
                        let row_text: String = out
                            .split('\n')
                            .filter(|l| row_bytes(l).is_some())
                            .flat_map(|l| l.split_whitespace().filter(|x| x.len() == 2 && x.bytes().all(|b| b.is_ascii_hexdigit())))
                            .collect::<Vec<&str>>()
                            .join(" ");
                        if row_text.chars().any(|c| c.is_ascii_lowercase()) {
                            v.push(Violation::new(
                                format!("C17:mem_layout{{{};{}}}", form, route),
                                "hex digits are not upper-case".to_string(),
                            ));
                        }
                        let rows: Vec<usize> = dump_rows(out);
                        let bad = rows.iter().enumerate().any(|(i, c)| {
                            if i + 1 < rows.len() {
                                *c != 16
                            } else {
                                *c > 16
                            }
                        });
                        if bad {
                            v.push(Violation::new(
                                format!("C17:mem_layout{{{};{}}}", form, route),
                                format!("rows hold {:?} bytes, expected 16 per row except the last", rows),
                            ));
                        }
                    }
                }
            }
        }
    }
    v
}

fn trunc(s: &str) -> String {
    if s.len() > 160 {
        let mut e = 160;
        while !s.is_char_boundary(e) {
            e -= 1;
        }
        format!("{}…", &s[..e])
    } else {
        s.to_owned()
    }
}

fn find_print_in_source(line: &str) -> Option<PrintCmd> {
    let t = shown_text(line).to_ascii_lowercase();
    let p = t.find("print")?;
    // the statement ends where the next mnemonic on the same line starts: try shrinking
    let rest = &t[p..];
    let words: Vec<&str> = rest.split_whitespace().collect();
    for k in (2..=words.len().min(6)).rev() {
        let cand = words[..k].join(" ");
        if let Some(c) = parse_print(&cand, true) {
            return Some(c);
        }
    }
    None
}

pub fn check_c17(case: &Case, h: &History, alts: &[History]) -> Vec<Violation> {
    let mut v = Vec::new();
    let lines = src_lines(&case.scn);
    let (_, segs) = segments(h);
    let mut mt = MemTrack::new();
    for (k, s) in segs.iter().enumerate() {
        mt.apply(s.delta);
        let sessions = prompt_sessions(s.events);
        // (1) commands typed at the prompt
        for ps in &sessions {
            let evs = &s.events[ps.from..ps.to];
            let mut i = 0;
            while i < evs.len() {
                if let Event::Line { who: Who::Prompt, res: LineRes::Ok(t) } = &evs[i] {
                    if let PromptCmd::Print(cmd) = classify_prompt_line(t) {
                        // the answer: what the printer wrote up to the next read; a report may also
                        // come from the prompt itself (any of its records that ends a line - the
                        // prompt marker does not) and may go to either stream
                        let mut out = String::new();
                        let mut report = String::new();
                        let mut j = i + 1;
                        while j < evs.len() {
                            match &evs[j] {
                                Event::Rec { origin: Origin::Printer, text, err, .. } => {
                                    if *err {
                                        report.push_str(text)
                                    } else {
                                        out.push_str(text)
                                    }
                                }
                                Event::Rec { origin: Origin::Prompt, text, .. } => {
                                    if text.ends_with('\n') {
                                        report.push_str(text)
                                    }
                                }
                                Event::Line { .. } => break,
                                _ => {}
                            }
                            j += 1;
                        }
                        // a command that had to be reported and was: fine wherever the report went
                        let shown = if out.trim().is_empty() { report.clone() } else { out.clone() };
                        v.extend(check_print_output(&cmd, &shown, &s.regs, &mt.mem, "prompt"));
                    }
                }
                i += 1;
            }
        }
        // (2) print statements of the program
        if code_class(s.code) == "print" {
            if let Some(gen) = &case.gen {
                if s.idx < gen.idx_line.len() {
                    let ln = gen.idx_line[s.idx];
                    if let Some(cmd) = lines.get(ln - 1).and_then(|l| find_print_in_source(l)) {
                        let last_session_end = sessions.last().map(|p| p.to).unwrap_or(0);
                        let mut out = String::new();
                        let mut report = String::new();
                        for e in &s.events[last_session_end..] {
                            if let Event::Rec { origin: Origin::Printer, text, err, .. } = e {
                                if *err {
                                    report.push_str(text);
                                } else {
                                    out.push_str(text);
                                }
                            }
                        }
                        if out.trim().is_empty() {
                            out = report;
                        }
                        // a statement whose run ended at the prompt before it (quit / EOF) has no output
                        if s.followed || (matches!(h.ended(), Some(Event::Return)) && !stopped_at_prompt(s, &sessions)) {
                            v.extend(check_print_output(&cmd, &out, &s.regs, &mt.mem, "program"));
                        }
                    }
                }
            }
            // purity of the statement (and of any prompt before it)
            if let Some(nx) = segs.get(k + 1) {
                if nx.regs != s.regs || !nx.delta.is_empty() {
                    v.push(Violation::new(
                        "C17:state_changed_by_print{program}",
                        format!(
                            "state differs after print statement #{} ({}): regs {:?} -> {:?}, {} memory bytes changed",
                            s.idx, s.code, s.regs, nx.regs, nx.delta.len()
                        ),
                    ));
                }
            }
        }
    }
    if h.panic().is_some() {
        let (msg, file, line) = h.panic().unwrap();
        let last = segs.last().map(|s| code_class(s.code)).unwrap_or("none");
        let in_prompt_print = segs.last().map(|s| {
            s.events.iter().rev().find_map(|e| match e {
                Event::Line { who: Who::Prompt, res: LineRes::Ok(t) } => Some(matches!(classify_prompt_line(t), PromptCmd::Print(_) | PromptCmd::Unknown)),
                Event::Probe { .. } => Some(false),
                _ => None,
            }).unwrap_or(false)
        }).unwrap_or(false);
        if last == "print" || in_prompt_print || file.contains("print.") {
            v.push(Violation::new(
                format!("C17:panic@{}:{}", short_file(file), line),
                format!("panic while printing: {} at {}:{}", msg, file, line),
            ));
        }
    }
    // (3) purity of prints typed at the prompt: same session without them
    for (a, ah) in case.alts.iter().zip(alts.iter()) {
        if a.role != "no_prints" {
            continue;
        }
        if h.out_of_fuel() || ah.out_of_fuel() {
            continue;
        }
        let pa: Vec<(usize, [u16; 14])> = segments(h).1.iter().map(|s| (s.idx, s.regs)).collect();
        let pb: Vec<(usize, [u16; 14])> = segments(ah).1.iter().map(|s| (s.idx, s.regs)).collect();
        if pa != pb {
            let first = pa.iter().zip(pb.iter()).position(|(x, y)| x != y);
            v.push(Violation::new(
                "C17:state_changed_by_print{prompt}",
                format!(
                    "register trace differs from the same session without the print commands and rejected lines (first difference at step {:?}; {} vs {} steps)",
                    first, pa.len(), pb.len()
                ),
            ));
        } else if h.final_mem() != ah.final_mem() {
            v.push(Violation::new(
                "C17:state_changed_by_print{prompt}",
                "final memory differs from the same session without the print commands and rejected lines".to_string(),
            ));
        }
    }
    v
}

pub fn short_file(f: &str) -> String {
    match f.find("/src/") {
        Some(p) => f[p + 1..].to_owned(),
        None => f.to_owned(),
    }
}

// ---------------------------------------------------------------------------------------
// C18: console interrupt services

fn enc_variants(bytes: &[u8]) -> (Vec<u8>, Vec<u8>) {
    // raw bytes, or every byte as the UTF-8 encoding of U+00xx
    let raw = bytes.to_vec();
    let mut utf = Vec::new();
    for b in bytes {
        let mut buf = [0u8; 4];
        utf.extend_from_slice((*b as char).encode_utf8(&mut buf).as_bytes());
    }
    (raw, utf)
}

fn regs_diff(a: &[u16; 14], b: &[u16; 14], allow: &[usize]) -> Option<String> {
    for i in 0..14 {
        if a[i] != b[i] && !allow.contains(&i) {
            return Some(format!("{} {:04X} -> {:04X}", REG_NAMES[i], a[i], b[i]));
        }
    }
    None
}

/// A read that hands over text without a line end is only right at the very end of the input:
/// if any further input is read after it, a line was cut in two (the rest of it was served as
/// "the next line").
pub fn split_line_read(h: &History) -> Option<(Who, String)> {
    let mut open: Option<(Who, String)> = None;
    for e in &h.events {
        if let Event::Line { who, res } = e {
            match res {
                LineRes::Ok(t) => {
                    if let Some(o) = open.take() {
                        return Some(o);
                    }
                    if !t.ends_with('\n') {
                        open = Some((*who, t.chars().take(40).collect()));
                    }
                }
                // a failed read takes its partial line with it; what follows is a fresh read
                LineRes::Err(_) => {}
                LineRes::Eof => {}
            }
        }
    }
    None
}

pub fn check_c18(_case: &Case, h: &History) -> Vec<Violation> {
    let mut v = Vec::new();
    if let Some((Who::Service, t)) = split_line_read(h) {
        v.push(Violation::new(
            "C18:svc_line_split",
            format!("a service took {:?}... without reaching the end of the line, and the rest of that line was read as the next one", t),
        ));
    }
    let (_, segs) = segments(h);
    let mut mt = MemTrack::new();
    for (k, s) in segs.iter().enumerate() {
        mt.apply(s.delta);
        let code = s.code.trim();
        let int_no = if code == "int 16" {
            0x10
        } else if code == "int 33" {
            0x21
        } else {
            continue;
        };
        let ah = (s.regs[R_AX] >> 8) as u8;
        let al = (s.regs[R_AX] & 0xff) as u8;
        let dl = (s.regs[R_DX] & 0xff) as u8;
        let cx = s.regs[R_CX] as usize;
        let tag = format!("{:02X}h,{:02X}h", int_no, ah);
        // service segment: events after the last prompt session
        let sessions = prompt_sessions(s.events);
        let from = sessions.last().map(|p| p.to).unwrap_or(0);
        let evs = &s.events[from..];
        let ended_here = !s.followed;
        let end = h.ended();
        // the run stopped at a prompt before the instruction executed
        if ended_here && !evs.iter().any(|e| matches!(e, Event::Rec { .. } | Event::Line { .. }))
            && matches!(end, Some(Event::Exit(_)) | None | Some(Event::Fuel))
        {
            continue;
        }
        if stopped_at_prompt(s, &sessions) {
            continue;
        }
        if let Some(Event::Panic { msg, file, line }) = end {
            if ended_here {
                v.push(Violation::new(
                    format!("C18:panic@{}:{}", short_file(file), line),
                    format!("int {:#x} AH={:#04x} aborted: {} at {}:{}", int_no, ah, msg, file, line),
                ));
                continue;
            }
        }
        if ended_here && matches!(end, Some(Event::Fuel)) {
            continue;
        }
        if ended_here && end.is_none() {
            // the simulator stopped a run that would never have ended: the service kept asking
            // for input at end of input
            let eofs = evs.iter().filter(|e| matches!(e, Event::Line { who: Who::Service, res: LineRes::Eof })).count();
            if eofs >= 64 {
                v.push(Violation::new(
                    format!("C18:svc_spin_at_eof{{{}}}", tag),
                    format!("int {:#x} AH={:#04x} asked for input {} times at end of input and never returned", int_no, ah, eofs),
                ));
            }
            continue;
        }
        let mut svc_out = Vec::new();
        let mut any_out = String::new();
        let mut reads: Vec<&LineRes> = Vec::new();
        for e in evs {
            match e {
                Event::Rec { origin: Origin::Service, text, .. } => {
                    svc_out.extend_from_slice(text.as_bytes());
                    any_out.push_str(text)
                }
                Event::Rec { origin: Origin::RunLoop, text, .. } => any_out.push_str(text),
                Event::Line { who: Who::Service, res } => reads.push(res),
                _ => {}
            }
        }
        let supported = match int_no {
            0x10 => ah == 0x0a || ah == 0x13,
            _ => ah == 1 || ah == 2 || ah == 0x0a,
        };
        if !supported {
            if any_out.trim().is_empty() {
                v.push(Violation::new(
                    format!("C18:unsupported_not_reported{{{}}}", tag),
                    format!("int {:#x} with AH={:#04x} is not supported but nothing was reported", int_no, ah),
                ));
            }
            if s.followed {
                v.push(Violation::new(
                    format!("C18:continued_after_unsupported{{{}}}", tag),
                    format!("int {:#x} with unsupported AH={:#04x} did not stop the program", int_no, ah),
                ));
            }
            continue;
        }
        let nx = match segs.get(k + 1) {
            Some(n) => n,
            None => continue, // cannot observe the post-state (should not happen: a hlt always follows)
        };
        let post = &nx.regs;
        let pre = &s.regs;
        let read_failed = reads.iter().any(|r| matches!(r, LineRes::Err(_)));
        match (int_no, ah) {
            (0x10, 0x0a) | (0x10, 0x13) | (0x21, 2) => {
                let want: Vec<u8> = match (int_no, ah) {
                    (0x10, 0x0a) => vec![al; cx],
                    (0x10, 0x13) => {
                        let start = s.regs[R_ES] as usize * 16 + s.regs[R_BP] as usize;
                        let mut w = vec![b' '; dl as usize];
                        for i in 0..cx {
                            w.push(mt.mem[(start + i) % MB]);
                        }
                        w
                    }
                    _ => vec![dl],
                };
                let (raw, utf) = enc_variants(&want);
                if svc_out != raw && svc_out != utf {
                    v.push(Violation::new(
                        format!("C18:svc_output{{{}}}", tag),
                        format!(
                            "int {:#x} AH={:#04x} wrote {} bytes {:?}, expected {} bytes {:?}",
                            int_no, ah, svc_out.len(), trunc(&String::from_utf8_lossy(&svc_out)),
                            want.len(), trunc(&String::from_utf8_lossy(&want))
                        ),
                    ));
                }
                let allow: &[usize] = if int_no == 0x21 { &[R_AX] } else { &[] };
                if let Some(d) = regs_diff(pre, post, allow) {
                    v.push(Violation::new(
                        format!("C18:svc_reg{{{}}}", tag),
                        format!("int {:#x} AH={:#04x} changed a register: {}", int_no, ah, d),
                    ));
                }
                if int_no == 0x21 {
                    let want_ax = (pre[R_AX] & 0xff00) | dl as u16;
                    if post[R_AX] != want_ax {
                        v.push(Violation::new(
                            format!("C18:svc_reg{{{}}}", tag),
                            format!("int 0x21 AH=2 must return DL in AL: AX {:04X} -> {:04X}, expected {:04X}", pre[R_AX], post[R_AX], want_ax),
                        ));
                    }
                }
                if !nx.delta.is_empty() {
                    v.push(Violation::new(
                        format!("C18:svc_mem_outside{{{}}}", tag),
                        format!("int {:#x} AH={:#04x} changed {} memory bytes (first at {:#x})", int_no, ah, nx.delta.len(), nx.delta[0].0),
                    ));
                }
                if !reads.is_empty() {
                    v.push(Violation::new(
                        format!("C18:svc_consumed{{{}}}", tag),
                        format!("int {:#x} AH={:#04x} read {} input lines", int_no, ah, reads.len()),
                    ));
                }
            }
            (0x21, 1) => {
                if reads.len() != 1 {
                    v.push(Violation::new(
                        format!("C18:svc_consumed{{{}}}", tag),
                        format!("int 0x21 AH=1 performed {} line reads, expected 1", reads.len()),
                    ));
                    continue;
                }
                if let Some(d) = regs_diff(pre, post, &[R_AX]) {
                    v.push(Violation::new(format!("C18:svc_reg{{{}}}", tag), format!("int 0x21 AH=1 changed a register: {}", d)));
                }
                if !nx.delta.is_empty() {
                    v.push(Violation::new(
                        format!("C18:svc_mem_outside{{{}}}", tag),
                        format!("int 0x21 AH=1 changed {} memory bytes", nx.delta.len()),
                    ));
                }
                if post[R_AX] & 0xff00 != pre[R_AX] & 0xff00 {
                    v.push(Violation::new(format!("C18:svc_reg{{{}}}", tag), "int 0x21 AH=1 changed AH".to_string()));
                }
                let got = (post[R_AX] & 0xff) as u8;
                let ok: Vec<u8> = match reads[0] {
                    LineRes::Eof => vec![0],
                    LineRes::Ok(t) => {
                        // the first byte of the line as it was read, its line end included: for an
                        // empty line that is the line-end byte itself (0 is what end of input gives,
                        // and a program must be able to tell the two apart)
                        vec![t.as_bytes()[0]]
                    }
                    LineRes::Err(k) => {
                        // a failed read: 0 or AL unchanged; when the bytes of a non-UTF-8 line are
                        // known (raw reads), taking its first byte is a fair answer too
                        let mut a = vec![0, al];
                        if let Some(hex) = k.strip_prefix("InvalidData:") {
                            if let Ok(b) = u8::from_str_radix(&hex[..hex.len().min(2)], 16) {
                                a.push(b);
                            }
                        }
                        a
                    }
                };
                if !ok.contains(&got) {
                    v.push(Violation::new(
                        format!("C18:svc_reg{{{}}}", tag),
                        format!("int 0x21 AH=1 returned AL={:#04x} for input {:?}, expected one of {:02X?}", got, reads[0], ok),
                    ));
                }
            }
            (0x21, 0x0a) => {
                if reads.len() != 1 {
                    v.push(Violation::new(
                        format!("C18:svc_consumed{{{}}}", tag),
                        format!("int 0x21 AH=0Ah performed {} line reads, expected 1", reads.len()),
                    ));
                    continue;
                }
                if let Some(d) = regs_diff(pre, post, &[]) {
                    v.push(Violation::new(format!("C18:svc_reg{{{}}}", tag), format!("int 0x21 AH=0Ah changed a register: {}", d)));
                }
                let base = pre[R_DS] as usize * 16 + pre[R_DX] as usize;
                let cap = mt.mem[base % MB] as usize;
                // post memory = pre + delta
                let post_byte0 = |addr: usize| -> u8 {
                    let a = (addr % MB) as u32;
                    match nx.delta.iter().find(|(x, _)| *x == a) {
                        Some((_, val)) => *val,
                        None => mt.mem[a as usize],
                    }
                };
                // what the service may write: the count byte, the stored characters and (the DOS
                // reading) one terminator after them if the buffer still has room for it; every
                // other byte - also the rest of the buffer beyond the stored line - is "other memory"
                let stored = (post_byte0(base + 1) as usize).min(cap);
                let inside = |addr: usize| -> bool {
                    let off = (addr + MB - (base % MB)) % MB;
                    off >= 1 && off < 2 + (stored + 1).min(cap)
                };
                let outside: Vec<&(u32, u8)> = nx.delta.iter().filter(|(a, _)| !inside(*a as usize)).collect();
                if !outside.is_empty() {
                    v.push(Violation::new(
                        format!("C18:svc_mem_outside{{{}}}", tag),
                        format!(
                            "int 0x21 AH=0Ah with capacity {} at {:#x} changed {} bytes other than the count and the stored line (first at {:#x})",
                            cap, base % MB, outside.len(), outside[0].0
                        ),
                    ));
                }
                // post memory = pre + delta
                let post_byte = |addr: usize| -> u8 {
                    let a = (addr % MB) as u32;
                    match nx.delta.iter().find(|(x, _)| *x == a) {
                        Some((_, val)) => *val,
                        None => mt.mem[a as usize],
                    }
                };
                let count = post_byte(base + 1) as usize;
                match reads[0] {
                    LineRes::Ok(t) => {
                        let raw = t.as_bytes();
                        let content = t.trim_end_matches(|c| c == '\n' || c == '\r').as_bytes();
                        if count > cap {
                            v.push(Violation::new(
                                format!("C18:svc_count{{{}}}", tag),
                                format!("stored count {} exceeds the declared capacity {}", count, cap),
                            ));
                        } else {
                            // accepted readings: terminator counted or not, CR counted or not
                            let mut ok = vec![content.len().min(cap), raw.len().min(cap)];
                            ok.push((content.len() + 1).min(cap));
                            if !ok.contains(&count) {
                                v.push(Violation::new(
                                    format!("C18:svc_count{{{}}}", tag),
                                    format!("stored count {} for a line of {} characters and capacity {}", count, content.len(), cap),
                                ));
                            } else {
                                let n = count.min(raw.len());
                                for i in 0..n {
                                    let want = if i < content.len() { vec![content[i]] } else { vec![raw[i], b'\r', b'\n'] };
                                    let got = post_byte(base + 2 + i);
                                    if !want.contains(&got) {
                                        v.push(Violation::new(
                                            format!("C18:svc_bytes{{{}}}", tag),
                                            format!("buffer byte {} is {:#04x}, the line has {:#04x} there", i, got, want[0]),
                                        ));
                                        break;
                                    }
                                }
                            }
                        }
                    }
                    LineRes::Eof => {
                        if count != 0 {
                            v.push(Violation::new(
                                format!("C18:svc_count{{{}}}", tag),
                                format!("stored count {} at end of input, expected 0", count),
                            ));
                        }
                    }
                    LineRes::Err(_) => {}
                }
            }
            _ => {}
        }
        let _ = read_failed;
    }
    v
}

// ---------------------------------------------------------------------------------------
// C20: stepping is transparent; the prompt always terminates

/// Program output: logical records minus stepping chatter (defined structurally)
pub fn program_output(h: &History) -> String {
    let mut out = String::new();
    let (prefix, segs) = segments(h);
    for e in prefix {
        if let Event::Rec { text, .. } = e {
            // (both streams: a diagnostic is program output wherever it is written)
            out.push_str(text);
        }
    }
    for s in &segs {
        // position of the last prompt-level read in this segment
        let last_prompt_read = s
            .events
            .iter()
            .rposition(|e| matches!(e, Event::Line { who: Who::Prompt, .. }));
        for (i, e) in s.events.iter().enumerate() {
            if let Event::Rec { origin, text, .. } = e {
                let chatter = match origin {
                    Origin::Prompt => true,
                    Origin::RunLoop | Origin::Printer => last_prompt_read.map(|p| i < p).unwrap_or(false),
                    _ => false,
                };
                if !chatter {
                    if *origin == Origin::RunLoop {
                        // the run loop's own headings ("Output of line 9 : ...") may carry numbers
                        // that belong to the program variant, not to its behaviour (an instruction
                        // index, say): which line is cited is C16's business; here every run of
                        // digits counts as one '#'
                        let mut prev_digit = false;
                        for ch in text.chars() {
                            if ch.is_ascii_digit() {
                                if !prev_digit {
                                    out.push('#');
                                }
                                prev_digit = true;
                            } else {
                                out.push(ch);
                                prev_digit = false;
                            }
                        }
                    } else {
                        out.push_str(text);
                    }
                }
            }
        }
    }
    out
}

pub fn check_c20(case: &Case, h: &History, alts: &[History]) -> Vec<Violation> {
    let mut v = Vec::new();
    let (_, segs) = segments(h);
    let gen = case.gen.as_ref();
    let n_code = gen.map(|g| g.idx_line.len());
    let lines = src_lines(&case.scn);

    if let Some((Who::Prompt, t)) = split_line_read(h) {
        v.push(Violation::new(
            "C20:prompt_line_split",
            format!("the prompt took {:?}... without reaching the end of the line, and the rest of that line was read as the next command", t),
        ));
    }
    // ---- liveness / spin / abort
    let mut seen_prompt_eof: Option<usize> = None;
    let mut probes_after_eof = 0;
    let mut noinput_reads = 0u32;
    for (i, e) in h.events.iter().enumerate() {
        match e {
            Event::Line { who: Who::Prompt, res } => {
                if let Some(p) = seen_prompt_eof {
                    v.push(Violation::new(
                        "C20:eof_spin",
                        format!("prompt read again at event {} after end of input was reported at event {}", i, p),
                    ));
                    break;
                }
                match res {
                    LineRes::Eof => {
                        seen_prompt_eof = Some(i);
                    }
                    LineRes::Err(_) => {
                        noinput_reads += 1;
                    }
                    LineRes::Ok(_) => noinput_reads = 0,
                }
            }
            Event::Probe { .. } => {
                if seen_prompt_eof.is_some() {
                    probes_after_eof += 1;
                }
                noinput_reads = 0;
            }
            _ => {}
        }
        if noinput_reads > 3 {
            v.push(Violation::new("C20:spin_after{read_error}", "more than 3 consecutive prompt reads that consume no input".to_string()));
            break;
        }
    }
    if let Some(p) = seen_prompt_eof {
        if probes_after_eof > 1 {
            v.push(Violation::new(
                "C20:eof_not_terminal",
                format!("{} further instructions were started after end of input at the prompt", probes_after_eof),
            ));
        }
        let ended = matches!(h.ended(), Some(Event::Exit(_)) | Some(Event::Return));
        let tail = h.events.len() - p;
        if !v.iter().any(|x| x.class == "C20:eof_spin") && (!ended && h.panic().is_none() && !h.out_of_fuel()) {
            v.push(Violation::new("C20:eof_spin", "the run did not end after end of input at the prompt".to_string()));
        } else if ended && tail > 200 && probes_after_eof <= 1 {
            v.push(Violation::new("C20:eof_spin", format!("{} events after end of input at the prompt", tail)));
        }
    }
    if h.ended().is_none() && seen_prompt_eof.is_none() {
        v.push(Violation::new("C20:no_end", "the run neither returned nor exited (unbounded output)".to_string()));
    }
    // events after exit
    if let Some(p) = h.events.iter().position(|e| matches!(e, Event::Exit(_))) {
        if h.events[p + 1..].iter().any(|e| matches!(e, Event::Rec { .. } | Event::Probe { .. } | Event::Line { .. })) {
            v.push(Violation::new("C20:events_after_exit", "records, reads or probes after exit".to_string()));
        }
    }
    // abort inside the driver's own code (prompt, run loop, printer); aborts inside the
    // interrupt services belong to C18, aborts inside instruction execution are compared
    // with the plain run below (transparency)
    if let Some((msg, file, line)) = h.panic() {
        let in_driver = file.contains("/src/driver/") && !file.ends_with("interrupts.rs");
        if in_driver {
            v.push(Violation::new(
                format!("C20:panic@{}:{}", short_file(file), line),
                format!("session aborted: {} at {}:{}", msg, file, line),
            ));
        }
    }

    // ---- accounting, naming, protocol
    for s in &segs {
        let sessions = prompt_sessions(s.events);
        let step = stepping_active(&case.scn, &s.regs) && n_code.map(|n| s.idx < n).unwrap_or(true);
        let expected = step as usize + is_int3(s.code) as usize;
        let completed = s.followed || (matches!(h.ended(), Some(Event::Return)) && !stopped_at_prompt(s, &sessions));
        let kind = gen.map(|g| instr_kind(g, s.idx)).unwrap_or_default();
        if completed && n_code.is_some() && sessions.len() != expected {
            v.push(Violation::new(
                format!("C20:prompt_count{{{}!={};{}}}", sessions.len(), expected, kind),
                format!(
                    "instruction #{} ({}) was preceded/accompanied by {} prompts, expected {} (stepping {}, int3 {})",
                    s.idx, s.code, sessions.len(), expected, step, is_int3(s.code)
                ),
            ));
        }
        if !completed && sessions.len() > expected && n_code.is_some() {
            v.push(Violation::new(
                format!("C20:prompt_count{{{}>{};{}}}", sessions.len(), expected, kind),
                format!("instruction #{} ({}) got {} prompts, at most {} expected", s.idx, s.code, sessions.len(), expected),
            ));
        }
        // naming: the single-step prompt is preceded by a message citing the instruction's line
        if step && !sessions.is_empty() {
            if let (Some(g), true) = (gen, true) {
                let want = g.idx_line[s.idx] as u64;
                let first = &sessions[0];
                let mut cited = None;
                // everything the driver said before the first command was read at this prompt
                let _ = first;
                let first_read = s
                    .events
                    .iter()
                    .position(|e| matches!(e, Event::Line { who: Who::Prompt, .. }))
                    .unwrap_or(s.events.len());
                for text in runloop_lines(&s.events[..first_read]).iter() {
                    if let Some(c) = cited_line(text) {
                        cited = Some((c, text.clone()));
                        break;
                    }
                }
                match cited {
                    None => v.push(Violation::new(
                        format!("C20:prompt_names_no_line{{{}}}", kind),
                        format!("the prompt before instruction #{} ({}) names no line", s.idx, s.code),
                    )),
                    Some((c, text)) => {
                        if c != want {
                            let wt = lines.get(want as usize - 1).map(|l| shown_text(l)).unwrap_or_default();
                            v.push(Violation::new(
                                format!("C20:wrong_line_named{{{}}}", kind),
                                format!(
                                    "prompt for instruction #{} ({}) says {:?} but the instruction is on line {} ({:?})",
                                    s.idx, s.code, text.trim_end(), want, wt
                                ),
                            ));
                        }
                    }
                }
            }
        }
        // protocol inside each session
        for ps in &sessions {
            let nl = ps.lines.len();
            for (li, l) in ps.lines.iter().enumerate() {
                let last = li + 1 == nl;
                if let LineRes::Ok(t) = l {
                    match classify_prompt_line(t) {
                        PromptCmd::Next => {
                            if !last {
                                v.push(Violation::new(
                                    "C20:next_not_one_step",
                                    format!("{:?} did not leave the prompt of instruction #{}", t, s.idx),
                                ));
                            } else if !s.followed && matches!(h.ended(), Some(Event::Exit(_))) && !is_int3(s.code)
                                && h.panic().is_none() && s.events.iter().all(|e| !matches!(e, Event::Rec { origin: Origin::Service, .. } | Event::Line { who: Who::Service, .. }))
                            {
                                // the command was read (with or without a line end) and the emulator
                                // left instead of running the instruction
                                let hlt = code_class(s.code) == "hlt";
                                let after: Vec<&Event> = s.events.iter().skip(ps.to).collect();
                                let ran = after.iter().any(|e| matches!(e, Event::Rec { origin: Origin::Printer, .. } | Event::Rec { origin: Origin::RunLoop, .. }));
                                if !hlt && !ran {
                                    v.push(Violation::new(
                                        "C20:next_did_not_advance",
                                        format!("{:?} at the prompt of instruction #{} ({}) ended the emulator instead of executing it", t, s.idx, s.code),
                                    ));
                                }
                            }
                        }
                        PromptCmd::Quit => {
                            // (leaving through `process::exit` or by returning from the run loop)
                            let exited = matches!(h.ended(), Some(Event::Exit(_)) | Some(Event::Return));
                            if !last || !exited || s.followed {
                                v.push(Violation::new(
                                    "C20:quit_not_exit",
                                    format!("{:?} at the prompt of instruction #{} did not terminate the emulator", t, s.idx),
                                ));
                            }
                        }
                        PromptCmd::Print(cmd) => {
                            // answered: the printer wrote something for it (register and flag dumps
                            // always; memory dumps when the range is a proper one)
                            let proper = match &cmd {
                                PrintCmd::Reg | PrintCmd::Flags => true,
                                PrintCmd::Range(a, b) => a <= b && *b < MB as u64,
                                PrintCmd::Len(a, n) => *a < MB as u64 && a + n < MB as u64,
                                PrintCmd::DsLen(n) => (s.regs[R_DS] as u64) * 16 + n < MB as u64,
                            };
                            if proper {
                                // events of this session after this line, up to the next line read
                                let evs = &s.events[ps.from..ps.to];
                                let mut seen_lines = 0usize;
                                let mut answered = false;
                                let mut closed = false;
                                for e in evs {
                                    match e {
                                        Event::Line { who: Who::Prompt, .. } => {
                                            seen_lines += 1;
                                            if seen_lines > li + 1 {
                                                closed = true;
                                                break;
                                            }
                                        }
                                        Event::Rec { origin: Origin::Printer, .. } if seen_lines == li + 1 => answered = true,
                                        _ => {}
                                    }
                                }
                                let _ = closed;
                                if !answered && h.panic().is_none() {
                                    v.push(Violation::new(
                                        "C20:print_not_answered",
                                        format!("print command {:?} at the prompt of instruction #{} got no answer from the printer", t.trim(), s.idx),
                                    ));
                                }
                            }
                            // answered without advancing: another prompt read (or the end of input) follows
                            // before any instruction runs
                            if last && (s.followed || matches!(h.ended(), Some(Event::Return))) {
                                v.push(Violation::new(
                                    "C20:nonadvancing_advanced{print}",
                                    format!("print command {:?} at the prompt of instruction #{} let execution continue", t.trim(), s.idx),
                                ));
                            }
                        }
                        PromptCmd::Garbage => {
                            // the statement names what ends the emulator (q, quit, end of input) and
                            // what advances (n, next): a line that is plainly none of these - empty,
                            // blank, a word, a number, an instruction - does neither
                            if last && t.ends_with('\n') && h.panic().is_none() && !h.out_of_fuel() {
                                if !s.followed && matches!(h.ended(), Some(Event::Exit(_)) | Some(Event::Return)) {
                                    v.push(Violation::new(
                                        "C20:garbage_terminated",
                                        format!("{:?} at the prompt of instruction #{} ended the emulator; only q, quit and the end of input do", t, s.idx),
                                    ));
                                } else if s.followed {
                                    v.push(Violation::new(
                                        "C20:garbage_advanced",
                                        format!("{:?} at the prompt of instruction #{} let execution continue; only n and next do", t, s.idx),
                                    ));
                                }
                            }
                        }
                        PromptCmd::Unknown => {}
                    }
                }
            }
        }
    }

    // ---- a breakpoint leaves the machine alone
    for (k, s) in segs.iter().enumerate() {
        if !is_int3(s.code) {
            continue;
        }
        if let Some(nx) = segs.get(k + 1) {
            let mut a = s.regs;
            let mut b = nx.regs;
            a[R_IP] = 0;
            b[R_IP] = 0;
            if a != b || !nx.delta.is_empty() {
                v.push(Violation::new(
                    "C20:int3_changed_state",
                    format!(
                        "registers / flags / memory differ after the breakpoint at instruction #{}: {:04X?} -> {:04X?}, {} memory bytes",
                        s.idx, s.regs, nx.regs, nx.delta.len()
                    ),
                ));
            }
        }
    }

    // ---- both ways of stepping execute the same instructions
    let clean_session = |h: &History| -> bool {
        !h.out_of_fuel()
            && h.panic().is_none()
            && h.events.iter().all(|e| match e {
                Event::Line { res: LineRes::Eof, .. } | Event::Line { res: LineRes::Err(_), .. } => false,
                Event::Line { who: Who::Prompt, res: LineRes::Ok(t) } => {
                    !matches!(classify_prompt_line(t), PromptCmd::Quit) && t.ends_with('\n')
                }
                Event::Line { who: Who::Service, res: LineRes::Ok(t) } => t.ends_with('\n'),
                Event::Exit(_) => false,
                _ => true,
            })
    };
    for (a, ah) in case.alts.iter().zip(alts.iter()) {
        if a.role != "interpreted_ref" {
            continue;
        }
        let (ga, gb) = match (gen, a.gen.as_ref()) {
            (Some(x), Some(y)) => (x, y),
            _ => continue,
        };
        if !clean_session(h) || !clean_session(ah) {
            continue;
        }
        let trace = |h: &History, g: &GenInfo| -> Vec<(usize, String)> {
            segments(h)
                .1
                .iter()
                .filter(|s| s.idx < g.idx_line.len() && g.idx_class[s.idx] != "int3")
                .map(|s| (g.idx_line[s.idx], g.idx_class[s.idx].clone()))
                .collect()
        };
        let ta = trace(h, ga);
        let tb = trace(ah, gb);
        if ta != tb {
            let p = ta.iter().zip(tb.iter()).position(|(x, y)| x != y).unwrap_or(ta.len().min(tb.len()));
            v.push(Violation::new(
                "C20:stepping_modes_disagree",
                format!(
                    "stepped by trap flag / breakpoints the run passes through {} instruction executions, stepped by -i through {}; first difference at execution {}: {:?} vs {:?}",
                    ta.len(), tb.len(), p, ta.get(p), tb.get(p)
                ),
            ));
        }
    }

    // ---- transparency against the plain run of the reference variant
    for (a, ah) in case.alts.iter().zip(alts.iter()) {
        if a.role != "plain_ref" {
            continue;
        }
        if h.out_of_fuel() || ah.out_of_fuel() {
            continue;
        }
        // only when every prompt was answered and nothing cut the input short: end of input
        // or a read error anywhere (prompt or service) makes the two runs see different input
        let clean = h.events.iter().all(|e| match e {
            Event::Line { res: LineRes::Eof, .. } => false,
            Event::Line { res: LineRes::Err(_), .. } => false,
            Event::Line { who: Who::Prompt, res: LineRes::Ok(t) } => {
                !matches!(classify_prompt_line(t), PromptCmd::Quit) && t.ends_with('\n')
            }
            Event::Line { who: Who::Service, res: LineRes::Ok(t) } => t.ends_with('\n'),
            Event::Exit(_) => false,
            _ => true,
        });
        if !clean {
            continue;
        }
        match (h.panic(), ah.panic()) {
            (None, None) => {}
            (Some(x), Some(y)) => {
                if x.1 != y.1 || x.2 != y.2 {
                    v.push(Violation::new(
                        "C20:transparency_abort",
                        format!("stepped run aborts at {}:{} but the plain run at {}:{}", x.1, x.2, y.1, y.2),
                    ));
                }
                continue;
            }
            (Some(x), None) => {
                v.push(Violation::new(
                    "C20:transparency_abort",
                    format!("the stepped run aborts at {}:{} but the plain run does not", x.1, x.2),
                ));
                continue;
            }
            (None, Some(y)) => {
                v.push(Violation::new(
                    "C20:transparency_abort",
                    format!("the plain run aborts at {}:{} but the stepped run does not", y.1, y.2),
                ));
                continue;
            }
        }
        let oa = program_output(ah);
        let ob = program_output(h);
        if oa != ob {
            let p = oa.bytes().zip(ob.bytes()).position(|(x, y)| x != y).unwrap_or(oa.len().min(ob.len()));
            v.push(Violation::new(
                "C20:transparency_output",
                format!(
                    "program output differs from the plain run at byte {}: plain {:?} vs stepped {:?}",
                    p,
                    trunc(&oa[floor_cb(&oa, p.saturating_sub(20))..]),
                    trunc(&ob[floor_cb(&ob, p.saturating_sub(20))..])
                ),
            ));
        }
        match (ah.final_regs(), h.final_regs()) {
            (Some(mut ra), Some(mut rb)) => {
                ra[R_FLAGS] &= !TF_BIT;
                rb[R_FLAGS] &= !TF_BIT;
                if ra != rb {
                    v.push(Violation::new(
                        "C20:transparency_state{reg}",
                        format!("final registers differ: plain {:04X?} vs stepped {:04X?}", ra, rb),
                    ));
                }
            }
            (None, None) => {}
            _ => v.push(Violation::new("C20:transparency_state{reg}", "one run executed no instruction".to_string())),
        }
        if ah.final_mem() != h.final_mem() {
            v.push(Violation::new("C20:transparency_state{mem}", "final memory differs from the plain run".to_string()));
        }
    }
    v
}

fn floor_cb(s: &str, mut p: usize) -> usize {
    if p > s.len() {
        p = s.len();
    }
    while !s.is_char_boundary(p) {
        p -= 1;
    }
    p
}
