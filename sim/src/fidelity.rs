//! Seam fidelity: the same scenario executed by the simulator (guarded seams on, in-process)
//! and by the real binary built from /repo's working tree with the guard OFF (a child process
//! with a real file, real pipes and the real `main`). Whatever can be expressed with pipes must
//! come out byte-identical; a disagreement is a simulator bug (exit 2), never a verdict.
//! Also used to confirm a reported violation against unhooked code (`real_binary_agrees`).
use crate::history::*;
use crate::scenario::*;
use std::io::{Read, Write};
use std::process::{Command, Stdio};
use std::time::{Duration, Instant};

pub struct RealOut {
    pub stdout: Vec<u8>,
    pub stderr: String,
    pub code: Option<i32>,
    pub timed_out: bool,
}

pub fn real_bin() -> Option<String> {
    let p = std::env::var("SIMCTL_REAL_BIN").ok()?;
    if std::path::Path::new(&p).exists() {
        Some(p)
    } else {
        None
    }
}

/// can this scenario be reproduced with a file and a pipe?
pub fn pipe_expressible(scn: &Scenario) -> bool {
    !scn.stdin.plan.iter().any(|o| matches!(o, ReadOp::Error { .. }))
}

pub fn real_run(scn: &Scenario, bin: &str, dir: &str, tag: &str, timeout: Duration) -> Option<RealOut> {
    real_run_env(scn, bin, dir, tag, timeout, false)
}

/// `other_env`: the same file and input in another process environment - every variable removed,
/// then a narrow terminal, another locale and time zone, no HOME, no PATH; started from the
/// directory of the file with a relative path instead of from here with an absolute one
pub fn real_run_env(scn: &Scenario, bin: &str, dir: &str, tag: &str, timeout: Duration, other_env: bool) -> Option<RealOut> {
    let _ = std::fs::create_dir_all(dir);
    let path = format!("{}/{}.s", dir, tag);
    std::fs::write(&path, &scn.source.0).ok()?;
    let mut cmd = Command::new(bin);
    if scn.interpreted {
        cmd.arg("-i");
    }
    if other_env {
        cmd.env_clear();
        for (k, v) in [
            ("COLUMNS", "40"), ("LINES", "10"), ("TERM", "dumb"), ("NO_COLOR", "1"), ("CLICOLOR_FORCE", "1"), ("LANG", "tr_TR.UTF-8"), ("LC_ALL", "tr_TR.UTF-8"),
            ("TZ", "Pacific/Kiritimati"), ("HOME", "/nonexistent"), ("PATH", "/nonexistent"), ("USER", "nobody"), ("TMPDIR", "/nonexistent"), ("RUST_LOG", "trace"),
            ("RUST_MIN_STACK", "8388608"),
        ] {
            cmd.env(k, v);
        }
        cmd.current_dir(dir);
        cmd.arg(format!("./{}.s", tag));
    } else {
        cmd.arg(&path);
    }
    cmd.stdin(Stdio::piped()).stdout(Stdio::piped()).stderr(Stdio::piped());
    let mut child = cmd.spawn().ok()?;
    let mut stdin = child.stdin.take()?;
    let bytes = scn.stdin.bytes.0.clone();
    let feeder = std::thread::spawn(move || {
        let _ = stdin.write_all(&bytes);
        // dropping the handle closes the pipe: end of input
    });
    let mut out = child.stdout.take()?;
    let mut err = child.stderr.take()?;
    let t_out = std::thread::spawn(move || {
        let mut v = Vec::new();
        let _ = out.read_to_end(&mut v);
        v
    });
    let t_err = std::thread::spawn(move || {
        let mut v = Vec::new();
        let _ = err.read_to_end(&mut v);
        String::from_utf8_lossy(&v).into_owned()
    });
    let t0 = Instant::now();
    let mut timed_out = false;
    let status = loop {
        match child.try_wait() {
            Ok(Some(s)) => break Some(s),
            Ok(None) => {
                if t0.elapsed() > timeout {
                    let _ = child.kill();
                    timed_out = true;
                    break child.wait().ok();
                }
                std::thread::sleep(Duration::from_millis(2));
            }
            Err(_) => break None,
        }
    };
    let _ = feeder.join();
    let stdout = t_out.join().unwrap_or_default();
    let stderr = t_err.join().unwrap_or_default();
    let _ = std::fs::remove_file(&path);
    Some(RealOut { stdout, stderr, code: status.and_then(|s| s.code()), timed_out })
}

/// None = not comparable (out of fuel, simulated spin); Some(Ok) = agrees; Some(Err(why)) = disagrees
pub fn compare(h: &History, r: &RealOut) -> Option<Result<(), String>> {
    if h.out_of_fuel() {
        return None;
    }
    let want_code = match h.ended() {
        Some(Event::Return) => 0,
        Some(Event::Exit(c)) => *c,
        Some(Event::Panic { .. }) => 101,
        _ => {
            // the simulator cut a spinning run short: the real one must not have ended by itself
            return Some(if r.timed_out { Ok(()) } else { Err("the simulated run never ends, the real one does".to_owned()) });
        }
    };
    if r.timed_out {
        return Some(Err("the real binary did not end in time".to_owned()));
    }
    if r.code != Some(want_code) {
        return Some(Err(format!("exit status {:?}, simulated {}", r.code, want_code)));
    }
    // bin.rs is a stub in the simulation (DESIGN §11): what it prints around the run - the report
    // about an unreadable file, the blank line after the run - is not held against either side
    let not_utf8 = h.events.iter().any(|e| matches!(e, Event::Rec { origin: Origin::Main, text, .. } if text.starts_with("Error Reading file")));
    if not_utf8 {
        return Some(if r.stdout.is_empty() && r.stderr.is_empty() { Err("nothing was said about an unreadable file".to_owned()) } else { Ok(()) });
    }
    let trim_nl = |b: &[u8]| -> Vec<u8> {
        let mut v = b.to_vec();
        while v.last() == Some(&b'\n') {
            v.pop();
        }
        v
    };
    if trim_nl(&r.stdout) != trim_nl(&h.raw_out) {
        let p = r.stdout.iter().zip(h.raw_out.iter()).position(|(a, b)| a != b).unwrap_or(r.stdout.len().min(h.raw_out.len()));
        let ctx = |b: &[u8]| String::from_utf8_lossy(&b[p.saturating_sub(30).min(b.len())..(p + 50).min(b.len())]).into_owned();
        return Some(Err(format!(
            "stdout differs at byte {} ({} vs {} bytes): real {:?} / simulated {:?}",
            p, r.stdout.len(), h.raw_out.len(), ctx(&r.stdout), ctx(&h.raw_out)
        )));
    }
    if h.panic().is_none() && r.stderr != h.stderr_text() {
        return Some(Err(format!("stderr differs: real {:?} / simulated {:?}", r.stderr.chars().take(120).collect::<String>(), h.stderr_text().chars().take(120).collect::<String>())));
    }
    if let Some((msg, _, _)) = h.panic() {
        if !r.stderr.contains(msg) {
            return Some(Err(format!("both abort, but the real panic message is {:?}, simulated {:?}", r.stderr.lines().nth(1).unwrap_or(""), msg)));
        }
    }
    Some(Ok(()))
}

/// `compare`, but what bin.rs does to the bytes of the file before the driver sees them is not
/// held against either side. bin.rs is a stub in the simulation (DESIGN §11): the report about a
/// file that is not UTF-8 (wording, stream, status) and a byte order mark that the real main may or
/// may not strip are its business; only an abort counts there.
pub fn compare_scn(scn: &Scenario, h: &History, r: &RealOut) -> Option<Result<(), String>> {
    let src = &scn.source.0[..];
    if src.starts_with(&[0xEF, 0xBB, 0xBF]) || std::str::from_utf8(src).is_err() {
        if h.out_of_fuel() {
            return None;
        }
        if aborted(r).is_some() && !matches!(h.ended(), Some(Event::Panic { .. })) {
            return Some(Err("the real binary aborted on a file that the simulated main reports or runs".to_owned()));
        }
        if std::str::from_utf8(src).is_err() && r.stdout.is_empty() && r.stderr.is_empty() {
            return Some(Err("nothing was said about an unreadable file".to_owned()));
        }
        return Some(Ok(()));
    }
    compare(h, r)
}

pub struct Sweep {
    /// C19: runs whose output depends on the process environment (variables, current directory)
    pub env_dependent: Vec<(u64, String)>,
    pub env_pairs: u64,
    /// process-level cases (C15 only) executed by the real binary
    pub proc_cases: u64,
    /// runs which the real binary ended by aborting (panic status 101 or a signal) while the
    /// simulated run ends properly: whatever the reason for the difference, the shipped program
    /// aborted on this file and input
    pub real_aborts: Vec<(u64, String)>,
    /// runs for which the real binary disagreed with itself (a C19 violation, not a simulator bug)
    pub not_reproducible: Vec<(u64, String)>,
    pub sessions: u64,
    pub compared: u64,
    pub not_comparable: u64,
    pub mismatches: Vec<String>,
}

/// Execute `n` generated whole-CLI cases of `prop` both ways, on `threads` threads.
/// `first`: the runs 0..first are all taken (an enumerated prefix), then `n` more spread by `stride`.
pub fn sweep(prop: &str, seed: u64, n: u64, stride: u64, threads: usize, dir: &str, first: u64) -> Sweep {
    let bin = match real_bin() {
        Some(b) => b,
        None => return Sweep { env_dependent: vec![], env_pairs: 0, proc_cases: 0, real_aborts: vec![], not_reproducible: vec![], sessions: 0, compared: 0, not_comparable: 0, mismatches: vec![] },
    };
    let mut handles = Vec::new();
    for t in 0..threads {
        let prop = prop.to_owned();
        let bin = bin.clone();
        let dir = dir.to_owned();
        let h = std::thread::Builder::new()
            .stack_size(64 << 20)
            .spawn(move || {
                let mut s = Sweep { env_dependent: vec![], env_pairs: 0, proc_cases: 0, real_aborts: vec![], not_reproducible: vec![], sessions: 0, compared: 0, not_comparable: 0, mismatches: vec![] };
                let mut k = t as u64;
                while k < first + n {
                    let run = if k < first { k } else { first + (k - first) * stride.max(1) };
                    k += threads as u64;
                    let mut scratch = crate::runner::Stats::default();
                    let case = match crate::dispatch::make_case(&prop, seed, run, &mut scratch) {
                        Some(c) => c,
                        None => continue,
                    };
                    // (the size families are about time and memory, with files of megabytes: not here)
                    if case.kind == "multi" || case.kind == "scaling" || case.kind == "parser" || !pipe_expressible(&case.scn) {
                        continue;
                    }
                    s.sessions += 1;
                    let hist = crate::world::run_cli(&case.scn);
                    let r = match real_run(&case.scn, &bin, &dir, &format!("f{}-{}", t, run), Duration::from_secs(20)) {
                        Some(r) => r,
                        None => {
                            s.mismatches.push(format!("run {}: the real binary could not be started", run));
                            continue;
                        }
                    };
                    if prop == "C19" && !r.timed_out {
                        // the same file and input in another process environment
                        if let Some(r2) = real_run_env(&case.scn, &bin, &dir, &format!("e{}-{}", t, run), Duration::from_secs(20), true) {
                            s.env_pairs += 1;
                            let same = |a: &RealOut, b: &RealOut| a.stdout == b.stdout && a.stderr == b.stderr && a.code == b.code;
                            if !r2.timed_out && !same(&r, &r2) {
                                // once more each, so that a run that differs from itself is not blamed on the environment
                                let r1b = real_run_env(&case.scn, &bin, &dir, &format!("e{}-{}b", t, run), Duration::from_secs(20), false);
                                let r2b = real_run_env(&case.scn, &bin, &dir, &format!("e{}-{}c", t, run), Duration::from_secs(20), true);
                                if let (Some(r1b), Some(r2b)) = (r1b, r2b) {
                                    if same(&r, &r1b) && same(&r2, &r2b) {
                                        let p = r.stdout.iter().zip(r2.stdout.iter()).position(|(a, b)| a != b).unwrap_or(r.stdout.len().min(r2.stdout.len()));
                                        let ctx = |b: &[u8]| String::from_utf8_lossy(&b[p.saturating_sub(30).min(b.len())..(p + 50).min(b.len())]).into_owned();
                                        s.env_dependent.push((run, format!(
                                            "the real binary printed different things for the same file and input in two process environments (all variables removed, COLUMNS=40, another locale, time zone and directory), each twice with the same result: stdout differs at byte {}: {:?} / {:?}; status {:?} / {:?}",
                                            p, ctx(&r.stdout), ctx(&r2.stdout), r.code, r2.code
                                        )));
                                    } else {
                                        s.not_reproducible.push((run, "the real binary, given the same file and the same input twice in the same environment, printed different things: not reproducible".to_owned()));
                                    }
                                }
                                continue;
                            }
                        }
                    }
                    match compare_scn(&case.scn, &hist, &r) {
                        None => s.not_comparable += 1,
                        Some(Ok(())) => s.compared += 1,
                        Some(Err(e)) => {
                            if let Some(how) = aborted(&r) {
                                if matches!(hist.ended(), Some(Event::Return) | Some(Event::Exit(_))) {
                                    s.real_aborts.push((run, format!("the real binary {} on this file and input (the simulated run ends properly): {}", how, first_lines(&r.stderr, 3))));
                                    continue;
                                }
                            }
                            // is the real binary even consistent with itself?
                            let mut outs = vec![(r.stdout.clone(), r.code)];
                            for k in 0..4 {
                                if let Some(r2) = real_run(&case.scn, &bin, &dir, &format!("f{}-{}-{}", t, run, k), Duration::from_secs(20)) {
                                    outs.push((r2.stdout, r2.code));
                                }
                            }
                            if outs.iter().any(|o| *o != outs[0]) {
                                s.not_reproducible.push((run, format!(
                                    "the real binary, given the same file and the same input {} times, printed different things: not reproducible",
                                    outs.len()
                                )));
                            } else {
                                // does the disagreement go away when the simulated descriptors deliver
                                // everything at once, as the pipe does?
                                let mut plain = case.scn.clone();
                                plain.stdin.plan.clear();
                                plain.stdout.plan.clear();
                                plain.stdin.bufreader_cap = 8192;
                                plain.stdout.linewriter_cap = 1024;
                                let h2 = crate::world::run_cli(&plain);
                                let note = if plain != case.scn && matches!(compare_scn(&plain, &h2, &r), Some(Ok(()))) {
                                    " [the code under test behaves differently under chunked / interrupted delivery than under whole delivery: a C19 matter, not a simulator bug]"
                                } else {
                                    ""
                                };
                                s.mismatches.push(format!("{} run {}: {}{}", prop, run, e, note));
                            }
                        }
                    }
                }
                s
            })
            .unwrap();
        handles.push(h);
    }
    let mut total = Sweep { env_dependent: vec![], env_pairs: 0, proc_cases: 0, real_aborts: vec![], not_reproducible: vec![], sessions: 0, compared: 0, not_comparable: 0, mismatches: vec![] };
    for h in handles {
        if let Ok(s) = h.join() {
            total.sessions += s.sessions;
            total.compared += s.compared;
            total.not_comparable += s.not_comparable;
            total.mismatches.extend(s.mismatches);
            total.not_reproducible.extend(s.not_reproducible);
            total.real_aborts.extend(s.real_aborts);
            total.env_dependent.extend(s.env_dependent);
            total.env_pairs += s.env_pairs;
        }
    }
    total
}

/// did the process end by aborting? (a panic leaves with status 101, a stack overflow or an
/// allocation failure with a signal). A process that was killed for taking too long is not
/// counted here: on a busy machine that proves nothing.
pub fn aborted(r: &RealOut) -> Option<String> {
    if r.timed_out {
        return None;
    }
    match r.code {
        None => Some("was ended by a signal (stack overflow, abort)".to_owned()),
        Some(101) => Some("panicked (exit status 101)".to_owned()),
        _ => {
            if r.stderr.contains("panicked at") {
                Some("panicked".to_owned())
            } else {
                None
            }
        }
    }
}

pub fn first_lines(t: &str, n: usize) -> String {
    t.lines().filter(|l| !l.trim().is_empty()).take(n).collect::<Vec<_>>().join(" | ").chars().take(300).collect()
}

/// One process-level case for the real binary: command line, the file (if any), stdin.
/// bin.rs is a stub inside the simulation (DESIGN section 11): argument handling, reading the file
/// and the stack of the thread that runs the driver are only real here.
pub struct ProcCase {
    pub name: String,
    /// None: no file argument; Some(bytes): a file with these bytes is written and passed
    pub file: Option<Vec<u8>>,
    /// what is passed instead of a readable file: "missing" | "directory" | ""
    pub special: &'static str,
    pub flags: Vec<&'static str>,
    pub stdin: Vec<u8>,
}

pub fn macro_chain(depth: usize) -> Vec<u8> {
    let mut t = String::from("macro c_0() -> inc ax <-\n");
    for d in 1..=depth {
        t.push_str(&format!("macro c_{}() -> c_{}() <-\n", d, d - 1));
    }
    t.push_str(&format!("start:\nc_{}()\nprint reg\n", depth));
    t.into_bytes()
}

pub fn proc_cases() -> Vec<ProcCase> {
    let mut v = Vec::new();
    let mut add = |name: &str, file: Option<Vec<u8>>, special: &'static str, flags: Vec<&'static str>, stdin: &[u8]| {
        v.push(ProcCase { name: name.to_owned(), file, special, flags, stdin: stdin.to_vec() });
    };
    add("no_arguments", None, "", vec![], b"");
    add("only_the_flag", None, "", vec!["-i"], b"");
    add("unknown_flag", None, "", vec!["--bogus"], b"");
    add("help", None, "", vec!["-h"], b"");
    add("version", None, "", vec!["-V"], b"");
    add("missing_file", None, "missing", vec![], b"");
    add("missing_file_interpreted", None, "missing", vec!["-i"], b"n\n");
    add("directory_as_file", None, "directory", vec![], b"");
    add("empty_file", Some(vec![]), "", vec![], b"");
    add("empty_file_interpreted", Some(vec![]), "", vec!["-i"], b"");
    add("only_newlines", Some(b"\n\n\n".to_vec()), "", vec![], b"");
    add("only_a_comment_no_newline", Some(b"; nothing".to_vec()), "", vec![], b"");
    add("no_final_newline", Some(b"start:\nmov ax, 1\nprint reg".to_vec()), "", vec![], b"");
    add("no_final_newline_interpreted", Some(b"start:\nmov ax, 1\nprint reg".to_vec()), "", vec!["-i"], b"n\nn\nn\nn\n");
    add("one_line_no_newline", Some(b"start: hlt".to_vec()), "", vec![], b"");
    add("crlf", Some(b"start:\r\nmov ax, 1\r\nprint reg\r\n".to_vec()), "", vec![], b"");
    add("byte_order_mark", Some(b"\xEF\xBB\xBFstart:\nmov ax, 1\n".to_vec()), "", vec![], b"");
    add("not_utf8", Some(b"start:\nmov ax, 1 ; \xFF\xFE\n".to_vec()), "", vec![], b"");
    add("nul_bytes", Some(b"start:\n\0\0mov ax, 1\n".to_vec()), "", vec![], b"");
    add("interpreted_closed_stdin", Some(b"start:\nmov ax, 1\nmov bx, 2\nprint reg\n".to_vec()), "", vec!["-i"], b"");
    add("service_closed_stdin", Some(b"start:\nmov ah, 1\nint 0x21\nmov ah, 0x0a\nmov dx, 16\nmov byte [16], 5\nint 0x21\nprint reg\n".to_vec()), "", vec![], b"");
    for d in [10usize, 50, 90, 99, 100, 101, 150, 400] {
        add(&format!("macro_chain_{}", d), Some(macro_chain(d)), "", vec![], b"");
    }
    add("macro_chain_100_interpreted", Some(macro_chain(100)), "", vec!["-i"], b"n\nn\nn\nn\n");
    {
        // nesting of another kind: a long expression-free line, deep brackets, many parameters
        let mut t = String::from("start:\nmov ax, ");
        t.push_str(&"(".repeat(3000));
        t.push('1');
        t.push_str(&")".repeat(3000));
        t.push('\n');
        add("deep_brackets", Some(t.into_bytes()), "", vec![], b"");
        let params: Vec<String> = (0..3000).map(|i| format!("p{}", i)).collect();
        let t = format!("macro m({}) -> inc ax <-\nstart:\nm({})\n", params.join(","), vec!["1"; 3000].join(","));
        add("macro_3000_parameters", Some(t.into_bytes()), "", vec![], b"");
        let mut t = String::from("start:\n");
        for i in 0..2000 {
            t.push_str(&format!("def p{} {{ call p{} }}\n", i, i + 1));
        }
        t.push_str("def p2000 { inc ax }\ncall p0\nprint reg\n");
        add("call_chain_2000", Some(t.into_bytes()), "", vec![], b"");
    }
    v
}

pub fn run_proc_case(c: &ProcCase, bin: &str, dir: &str, tag: &str, timeout: Duration) -> Option<RealOut> {
    let _ = std::fs::create_dir_all(dir);
    let path = format!("{}/{}.s", dir, tag);
    let mut cmd = Command::new(bin);
    for f in &c.flags {
        cmd.arg(f);
    }
    match (&c.file, c.special) {
        (Some(b), _) => {
            std::fs::write(&path, b).ok()?;
            cmd.arg(&path);
        }
        (None, "missing") => {
            let _ = std::fs::remove_file(&path);
            cmd.arg(&path);
        }
        (None, "directory") => {
            cmd.arg(dir);
        }
        _ => {}
    }
    cmd.stdin(Stdio::piped()).stdout(Stdio::piped()).stderr(Stdio::piped());
    let mut child = cmd.spawn().ok()?;
    let mut stdin = child.stdin.take()?;
    let bytes = c.stdin.clone();
    let feeder = std::thread::spawn(move || {
        let _ = stdin.write_all(&bytes);
    });
    let mut out = child.stdout.take()?;
    let mut err = child.stderr.take()?;
    let t_out = std::thread::spawn(move || {
        let mut v = Vec::new();
        let _ = out.read_to_end(&mut v);
        v
    });
    let t_err = std::thread::spawn(move || {
        let mut v = Vec::new();
        let _ = err.read_to_end(&mut v);
        String::from_utf8_lossy(&v).into_owned()
    });
    let t0 = Instant::now();
    let mut timed_out = false;
    let status = loop {
        match child.try_wait() {
            Ok(Some(s)) => break Some(s),
            Ok(None) => {
                if t0.elapsed() > timeout {
                    let _ = child.kill();
                    timed_out = true;
                    break child.wait().ok();
                }
                std::thread::sleep(Duration::from_millis(2));
            }
            Err(_) => break None,
        }
    };
    let _ = feeder.join();
    let stdout = t_out.join().unwrap_or_default();
    let stderr = t_err.join().unwrap_or_default();
    let _ = std::fs::remove_file(&path);
    Some(RealOut { stdout, stderr, code: status.and_then(|s| s.code()), timed_out })
}

/// What a process-level case must satisfy: the process ends by itself, with a result or a
/// diagnostic - no panic, no signal. (Ending is judged with a very generous limit and re-tried
/// once: a slow machine is not a hang.) Returns the violation text.
pub fn judge_proc_case(c: &ProcCase, bin: &str, dir: &str, tag: &str) -> Option<String> {
    let r = run_proc_case(c, bin, dir, tag, Duration::from_secs(120))?;
    if let Some(how) = aborted(&r) {
        return Some(format!("the real binary {}: {}", how, first_lines(&r.stderr, 3)));
    }
    if r.timed_out {
        let r2 = run_proc_case(c, bin, dir, tag, Duration::from_secs(300))?;
        if r2.timed_out {
            return Some("the real binary did not end within 300 s on a tiny input".to_owned());
        }
        if let Some(how) = aborted(&r2) {
            return Some(format!("the real binary {}: {}", how, first_lines(&r2.stderr, 3)));
        }
    }
    if r.stdout.is_empty() && r.stderr.is_empty() && r.code != Some(0) {
        return Some(format!("the real binary left with status {:?} without saying anything", r.code));
    }
    None
}
