//! A case = everything one verdict is derived from: the main scenario, the other runs a
//! relational oracle compares it with, and the generator's bookkeeping. It is the replay file.
use crate::scenario::*;
use serde::{Deserialize, Serialize};

#[derive(Clone, Debug, Serialize, Deserialize)]
pub struct AltRun {
    /// plain_ref | no_prints | env
    pub role: String,
    pub scn: Scenario,
    #[serde(default)]
    pub gen: Option<GenInfo>,
}

#[derive(Clone, Debug, Serialize, Deserialize, Default)]
pub struct Expect {
    pub class: String,
    #[serde(default)]
    pub message: String,
    #[serde(default)]
    pub digest: String,
    #[serde(default)]
    pub real_binary_agrees: Option<bool>,
}

/// One generated source line with the generator's bookkeeping (kept so that the minimiser
/// can drop lines and recompute the instruction -> line table)
#[derive(Clone, Debug, Serialize, Deserialize, PartialEq, Eq)]
pub struct ProgLine {
    pub text: String,
    pub ref_text: String,
    pub emits: Vec<String>,
    pub ref_emits: Vec<String>,
}

#[derive(Clone, Debug, Serialize, Deserialize, PartialEq, Eq)]
pub struct ProgramSer {
    pub lines: Vec<ProgLine>,
    pub final_newline: bool,
    pub crlf: bool,
    #[serde(default)]
    pub tags: Vec<String>,
}

#[derive(Clone, Debug, Serialize, Deserialize)]
pub struct Case {
    pub format: u32,
    pub property: String,
    /// session | env | multi | storage | sweep | parser
    pub kind: String,
    /// provenance only; never re-read by the execution phase
    pub seed: u64,
    pub run: u64,
    /// fault_free | faulted
    pub config: String,
    /// fault kinds configured for this case (what fired is counted from the history)
    #[serde(default)]
    pub faults: Vec<String>,
    pub scn: Scenario,
    #[serde(default)]
    pub alts: Vec<AltRun>,
    #[serde(default)]
    pub gen: Option<GenInfo>,
    /// the generated program, line by line (None for storage / parser cases)
    #[serde(default)]
    pub program: Option<ProgramSer>,
    #[serde(default)]
    pub multi: Option<crate::multi::MultiSpec>,
    /// direct-to-parser strings (C15 sub-part)
    #[serde(default)]
    pub parser_inputs: Vec<String>,
    /// C16 diagnostic clause: where the fault was injected
    #[serde(default)]
    pub diag: Option<crate::diag::DiagSpec>,
    #[serde(default)]
    pub expect: Option<Expect>,
}

impl Case {
    pub fn new(property: &str, kind: &str, seed: u64, run: u64, scn: Scenario) -> Case {
        Case {
            format: 1,
            property: property.to_owned(),
            kind: kind.to_owned(),
            seed,
            run,
            config: "fault_free".to_owned(),
            faults: vec![],
            scn,
            alts: vec![],
            gen: None,
            program: None,
            multi: None,
            parser_inputs: vec![],
            diag: None,
            expect: None,
        }
    }
}

#[derive(Clone, Debug, Serialize, Deserialize, PartialEq, Eq)]
pub struct Violation {
    /// stable class string (Appendix A.3); minimisation keeps it, known findings match on it
    pub class: String,
    pub message: String,
}

impl Violation {
    pub fn new(class: impl Into<String>, message: impl Into<String>) -> Violation {
        Violation { class: class.into(), message: message.into() }
    }
}
