//! Recorded history of one simulated execution. The position in the list is the global
//! sequence number (there is no simulated wall time in this system).
use crate::rng::fnv1a;
use serde::{Deserialize, Serialize};

pub const MB: usize = 1 << 20;

#[derive(Clone, Copy, Debug, PartialEq, Eq, Serialize, Deserialize)]
pub enum Origin {
    /// driver/driver.rs (run loop and the checks before it)
    RunLoop,
    /// driver/user_interface.rs
    Prompt,
    /// generated driver/print.rs
    Printer,
    /// driver/interrupts.rs
    Service,
    /// the stub of bin.rs `main`
    Main,
    Other,
}

pub fn origin_of(module: &str) -> Origin {
    if module.ends_with("::user_interface") {
        Origin::Prompt
    } else if module.contains("::print") {
        Origin::Printer
    } else if module.ends_with("::interrupts") {
        Origin::Service
    } else if module.ends_with("::driver::driver") || module.ends_with("::driver::error_helper") || module.ends_with("::driver::preprocess") {
        // the run loop and the two helper files it has always had for locating and reporting lines:
        // a message that cites a line may be composed and written there (one helper for all of them)
        Origin::RunLoop
    } else if module.contains("::driver::") {
        // any other file of the driver that writes: a helper of the printer (dumps moved into a
        // module of their own, say); what it writes is program-visible text, not the driver's voice
        Origin::Printer
    } else {
        Origin::Other
    }
}

#[derive(Clone, Copy, Debug, PartialEq, Eq, Serialize, Deserialize)]
pub enum Who {
    Prompt,
    Service,
}

#[derive(Clone, Debug, PartialEq, Eq, Serialize, Deserialize)]
pub enum LineRes {
    /// a line was returned (possibly without '\n' when input ended mid-line); n = bytes appended
    Ok(String),
    /// read_line returned Ok(0)
    Eof,
    /// read_line returned Err(kind)
    Err(String),
}

/// 14 registers in a fixed order
pub const REG_NAMES: [&str; 14] =
    ["FLAGS", "AX", "BX", "CX", "DX", "SP", "BP", "SI", "DI", "IP", "CS", "DS", "SS", "ES"];
pub const R_FLAGS: usize = 0;
pub const R_AX: usize = 1;
pub const R_BX: usize = 2;
pub const R_CX: usize = 3;
pub const R_DX: usize = 4;
pub const R_SP: usize = 5;
pub const R_BP: usize = 6;
pub const R_SI: usize = 7;
pub const R_DI: usize = 8;
pub const R_IP: usize = 9;
pub const R_CS: usize = 10;
pub const R_DS: usize = 11;
pub const R_SS: usize = 12;
pub const R_ES: usize = 13;

#[derive(Clone, Debug, PartialEq, Eq, Serialize, Deserialize)]
pub enum Event {
    /// one print!/println! invocation (err = false), or one eprint!/eprintln! (err = true: it went
    /// to stderr and is not part of `raw_out`)
    Rec {
        origin: Origin,
        line: u32,
        text: String,
        #[serde(default)]
        err: bool,
    },
    /// raw write on descriptor 1: asked, accepted (None = EINTR)
    RawW { asked: usize, accepted: Option<usize> },
    Flush,
    /// raw read on descriptor 0: asked, result
    RawR { asked: usize, res: String },
    /// one read_line call - or, for code that reads stdin through fill_buf / consume / read, one
    /// input line's worth of consumed bytes (synthesised by the console, see `Consumed`)
    Line { who: Who, res: LineRes },
    /// BufRead::fill_buf on stdin: bytes offered ("eof", "err:<kind>" or a count)
    Fill { who: Who, got: String },
    /// BufRead::consume on stdin: the bytes taken
    Consumed { who: Who, bytes: crate::scenario::Bytes },
    /// top of a run-loop iteration; mem = bytes that differ from the previous probe
    /// (from all-zero memory for the first probe)
    Probe { idx: usize, code: String, regs: [u16; 14], mem: Vec<(u32, u8)> },
    Exit(i32),
    Return,
    Panic { msg: String, file: String, line: u32 },
    /// out of fuel: no verdict
    Fuel,
}

#[derive(Clone, Debug, Default, Serialize, Deserialize)]
pub struct History {
    pub events: Vec<Event>,
    /// everything descriptor 1 accepted
    pub raw_out: Vec<u8>,
    /// number of stdin bytes the raw descriptor handed over
    pub stdin_consumed: usize,
    /// how often the code under test read the (simulated) clock; not part of the digest
    #[serde(default)]
    pub clock_reads: u64,
}

impl History {
    pub fn digest(&self) -> u64 {
        let s = serde_json::to_vec(&self.events).unwrap();
        fnv1a(&s) ^ fnv1a(&self.raw_out).rotate_left(17)
    }

    /// concatenation of all logical records written to stdout
    pub fn records_text(&self) -> String {
        let mut s = String::new();
        for e in &self.events {
            if let Event::Rec { text, err: false, .. } = e {
                s.push_str(text);
            }
        }
        s
    }

    /// concatenation of everything written to stderr
    pub fn stderr_text(&self) -> String {
        let mut s = String::new();
        for e in &self.events {
            if let Event::Rec { text, err: true, .. } = e {
                s.push_str(text);
            }
        }
        s
    }

    pub fn panic(&self) -> Option<(&str, &str, u32)> {
        for e in &self.events {
            if let Event::Panic { msg, file, line } = e {
                return Some((msg, file, *line));
            }
        }
        None
    }

    pub fn ended(&self) -> Option<&Event> {
        self.events.iter().rev().find(|e| {
            matches!(e, Event::Exit(_) | Event::Return | Event::Panic { .. } | Event::Fuel)
        })
    }

    pub fn out_of_fuel(&self) -> bool {
        self.events.iter().any(|e| matches!(e, Event::Fuel))
    }

    pub fn probes(&self) -> impl Iterator<Item = (usize, &Event)> {
        self.events.iter().enumerate().filter(|(_, e)| matches!(e, Event::Probe { .. }))
    }

    pub fn n_probes(&self) -> usize {
        self.probes().count()
    }

    /// registers at the last probe
    pub fn final_regs(&self) -> Option<[u16; 14]> {
        self.events.iter().rev().find_map(|e| match e {
            Event::Probe { regs, .. } => Some(*regs),
            _ => None,
        })
    }

    /// memory at the last probe as a sparse sorted list of non-zero bytes
    pub fn final_mem(&self) -> std::collections::BTreeMap<u32, u8> {
        let mut m = std::collections::BTreeMap::new();
        for e in &self.events {
            if let Event::Probe { mem, .. } = e {
                for (a, v) in mem {
                    if *v == 0 {
                        m.remove(a);
                    } else {
                        m.insert(*a, *v);
                    }
                }
            }
        }
        m
    }

    /// history shape: payloads erased, used as the "distinct interleavings" measure
    pub fn shape(&self, class_of: &dyn Fn(&str) -> &'static str) -> u64 {
        let mut h: u64 = 0xcbf2_9ce4_8422_2325;
        let mut mix = |x: &[u8]| {
            for b in x {
                h ^= *b as u64;
                h = h.wrapping_mul(0x0000_0100_0000_01B3);
            }
        };
        for e in &self.events {
            match e {
                Event::Rec { origin, err, .. } => {
                    mix(if *err { b"E" } else { b"R" });
                    mix(&[*origin as u8]);
                }
                Event::RawW { accepted, .. } => {
                    if accepted.is_none() {
                        mix(b"we");
                    }
                }
                Event::Flush => mix(b"F"),
                Event::RawR { res, .. } => {
                    if res != "ok" {
                        mix(b"r");
                        mix(res.as_bytes());
                    }
                }
                Event::Line { who, res } => {
                    mix(b"L");
                    mix(&[*who as u8]);
                    match res {
                        LineRes::Ok(t) => {
                            mix(b"o");
                            mix(&[t.ends_with('\n') as u8]);
                        }
                        LineRes::Eof => mix(b"e"),
                        LineRes::Err(k) => mix(k.as_bytes()),
                    }
                }
                Event::Fill { who, got } => {
                    mix(b"f");
                    mix(&[*who as u8]);
                    if got == "eof" || got.starts_with("err") {
                        mix(got.as_bytes());
                    }
                }
                Event::Consumed { who, .. } => {
                    mix(b"c");
                    mix(&[*who as u8]);
                }
                Event::Probe { code, .. } => {
                    mix(b"P");
                    mix(class_of(code).as_bytes());
                }
                Event::Exit(c) => {
                    mix(b"X");
                    mix(&[*c as u8]);
                }
                Event::Return => mix(b"T"),
                Event::Panic { file, line, .. } => {
                    mix(b"!");
                    mix(file.as_bytes());
                    mix(&line.to_le_bytes());
                }
                Event::Fuel => mix(b"f"),
            }
        }
        h
    }
}

/// Class of an IR line (first word(s)), used for history shapes
pub fn code_class(code: &str) -> &'static str {
    let c = code.trim_start();
    let w = c.split(|ch: char| ch == ' ' || ch == ',').next().unwrap_or("");
    match w {
        "print" => "print",
        "int" => {
            let n = c[3..].trim();
            match n {
                "3" => "int3",
                "16" => "int10",
                "33" => "int21",
                _ => "int",
            }
        }
        "rep" | "repz" | "repnz" => "rep",
        "call" => "call",
        "ret" => "ret",
        "hlt" => "hlt",
        "popf" => "popf",
        "pushf" | "push" | "pop" => "stack",
        "div" | "idiv" | "mul" | "imul" => "muldiv",
        "jmp" | "loop" | "loope" | "loopne" | "jcxz" => "jump",
        "movs" | "stos" | "lods" | "cmps" | "scas" => "string",
        _ => {
            if w.starts_with('j') {
                "jump"
            } else {
                "plain"
            }
        }
    }
}

/// Running reconstruction of the 1 MiB from probe deltas
pub struct MemTrack {
    pub mem: Vec<u8>,
}

impl MemTrack {
    pub fn new() -> MemTrack {
        MemTrack { mem: vec![0u8; MB] }
    }
    pub fn apply(&mut self, delta: &[(u32, u8)]) {
        for (a, v) in delta {
            self.mem[*a as usize] = *v;
        }
    }
}
