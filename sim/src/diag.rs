//! C16, diagnostic clause: a syntax or semantic diagnostic reports the line number, column
//! and text of the line containing the offending token.
//!
//! What is simulated: the stored source file suffers one localised fault at a position the
//! simulator knows (a byte turned into one no token can contain, a line torn off in the
//! middle of a statement, a foreign line spliced in, the file cut inside its last statement),
//! then the real CLI pipeline runs on it under the simulated console. The oracle reads the
//! diagnostic back from the stdout history and compares the cited line, column and text
//!   (O1) with the place the fault was injected (generator bookkeeping),
//!   (O2) with the stored file itself: the quoted text must be the text of the cited line,
//!   (O3) with an independent offset -> (line, column, text) computation applied to the error
//!        location the assembler reports when it is called directly on the same text.
use crate::case::*;
use crate::gen::*;
use crate::history::*;
use crate::oracle::shown_text;
use crate::rng::{run_seed, Rng};
use crate::runner::{Exec, Stats};
use crate::scenario::*;
use crate::session::assemble_count;
use emulator_8086_lib::{Preprocessor, PreprocessorContext, PreprocessorOutput};
use lalrpop_util::ParseError;
use serde::{Deserialize, Serialize};

#[derive(Clone, Debug, Serialize, Deserialize, PartialEq, Eq, Default)]
pub struct DiagSpec {
    /// invalid_char | spliced_line | torn_line | cut_in_last_statement | undefined_label |
    /// duplicate_label | random_corruption | name_misused
    pub kind: String,
    /// 1-based lines a correct diagnostic may cite (empty = not known to the generator)
    #[serde(default)]
    pub lines: Vec<usize>,
    /// acceptable 0-based column range (inclusive) on that line; a 1-based reading is accepted too
    #[serde(default)]
    pub col: Option<(usize, usize)>,
    /// a second acceptable column range (e.g. the label operand of a jump)
    #[serde(default)]
    pub col2: Option<(usize, usize)>,
    /// 0-based index of the line that carries the fault (minimiser bookkeeping)
    #[serde(default)]
    pub target: Option<usize>,
}

/// statements that are wrong in themselves, wherever they are spliced in; the offending token
/// is on the spliced line
const FOREIGN: [&str; 22] = [
    "mov bl, 300",
    "mov ax, 70000",
    "add cl, 0x1FF",
    "mov dh, 0b111111111",
    "int 5",
    "int 0x22",
    "call zz_nowhere",
    "zz_undefined(1)",
    "zz_undefined()",
    "in al, 5",
    "mov ax bx",
    "mov ax, , 5",
    "mov ax, 1 $",
    "mov ax, @",
    "push al",
    "lds ax, [bx]",
    "print mem 0xFFFFF : 5",
    "print mem 0xFFFF0 : 0xFF",
    "mov byte [bx], 256",
    "add ax, -40000",
    "xchg ax, 5",
    "out 5, al",
];

const NO_TOKEN_BYTES: [u8; 12] = [b'@', b'$', b'#', b'`', b'~', b'^', b'&', b'|', b'\\', b'?', b'!', b'%'];

fn base_program(r: &mut Rng) -> Option<Program> {
    for _ in 0..12 {
        let mut feat = Feat::swarm(r, 50);
        feat.tf = false;
        let cfg = GenCfg { feat, layout: Layout::swarm(r), body_lo: 1, body_hi: *r.pick(&[3, 8, 20]) };
        let mut pr = r.fork("program");
        let p = generate(&mut pr, &cfg);
        let text = p.render();
        if assemble_count(&text) == Some(p.info().idx_line.len()) {
            return Some(p);
        }
    }
    None
}

fn code_part(line: &str) -> &str {
    match line.find(';') {
        Some(p) => &line[..p],
        None => line,
    }
}

fn is_word_byte(b: u8) -> bool {
    b.is_ascii_alphanumeric() || b == b'_'
}

fn join(lines: &[String], eol: &str, final_newline: bool) -> String {
    let mut s = String::new();
    for (i, l) in lines.iter().enumerate() {
        s.push_str(l);
        if i + 1 < lines.len() || final_newline {
            s.push_str(eol);
        }
    }
    s
}

pub fn make_case(seed: u64, run: u64, stats: &mut Stats) -> Option<Case> {
    let rs = run_seed(seed, "C16diag", run);
    let mut r0 = Rng::new(rs);
    for _ in 0..6 {
        let mut r = r0.fork("attempt");
        if let Some(c) = make_case_once(seed, run, &mut r) {
            Stats::bump(&mut stats.kinds, &format!("diag_{}", c.diag.as_ref().map(|d| d.kind.as_str()).unwrap_or("?")), 1);
            return Some(c);
        }
    }
    None
}

fn make_case_once(seed: u64, run: u64, r: &mut Rng) -> Option<Case> {
    let mut r = r.clone();
    let p = base_program(&mut r)?;
    let eol = if p.crlf { "\r\n" } else { "\n" };
    let mut lines: Vec<String> = p.lines.iter().map(|l| l.text.clone()).collect();
    let mut final_newline = p.final_newline;
    let start_line = lines.iter().position(|l| code_part(l).trim_start().starts_with("start:")).unwrap_or(0);
    let mut spec = DiagSpec::default();
    let kind = r.below(100);
    if kind < 7 {
        // a well-formed statement that misuses a name: call of a label, jump to a procedure or to
        // data, call of nothing, a macro with too few arguments, a macro that does not exist, a code
        // label where data is wanted. The offending token is in the statement; the program must
        // not start
        // (data comes first in a file, procedures and macros directly in front of the entry point)
        lines.insert(0, "zz_d: db 5".to_owned());
        let start_line = start_line + 1;
        let defs = ["def zz_pr { inc ax }", "macro zz_m(a,b) -> add a, b <-"];
        for (k, d) in defs.iter().enumerate() {
            lines.insert(start_line + k, (*d).to_owned());
        }
        let start_line = start_line + defs.len();
        lines.insert(start_line + 1, "zz_lab: inc di".to_owned());
        let at = r.urange(start_line + 2, lines.len());
        let indent = if r.chance(50) { " ".repeat(r.urange(1, 8)) } else { String::new() };
        let body = *r.pick(&["call zz_lab", "jmp zz_pr", "je zz_pr", "call zz_nothing", "zz_m(ax)", "zz_nomacro(ax)", "jmp zz_d", "mov al, byte zz_lab", "call zz_d", "loop zz_pr"]);
        lines.insert(at, format!("{}{}", indent, body));
        if at + 1 == lines.len() && r.chance(50) {
            final_newline = false;
        }
        spec.kind = "name_misused".to_owned();
        spec.lines = vec![at + 1];
        spec.col = Some((indent.len(), indent.len() + body.len()));
        spec.target = Some(at);
    } else if kind < 28 {
        // a foreign, wrong statement spliced in somewhere after the entry point
        let at = r.urange(start_line + 1, lines.len());
        let stmt = *r.pick(&FOREIGN);
        let indent = if r.chance(40) { " ".repeat(r.urange(1, 8)) } else if r.chance(10) { "\t".to_owned() } else { String::new() };
        let up = r.chance(15);
        let body = if up { upcase_keywords(stmt) } else { stmt.to_owned() };
        let mut suffix = if r.chance(25) { " ; spliced".to_owned() } else { String::new() };
        if r.chance(12) {
            // a very long line: blanks (ASCII and not) and a remark far beyond any sensible width
            // ... placed so that a multi-byte blank straddles a round byte offset of the line
            let target = *r.pick(&[16usize, 32, 64, 80, 100, 128, 255, 256, 257, 512, 1024]);
            let k = target.saturating_sub(1 + indent.len() + body.len()).max(1);
            suffix = format!("{}{}{} ; {}", " ".repeat(k), "\u{a0}\u{2003}".repeat(r.urange(1, 6)), " ".repeat(r.urange(0, 40)), "\u{e9}".repeat(r.urange(1, 200)));
        }
        lines.insert(at, format!("{}{}{}", indent, body, suffix));
        if at + 1 == lines.len() && r.chance(50) {
            final_newline = false;
        }
        spec.kind = "spliced_line".to_owned();
        spec.lines = vec![at + 1];
        spec.col = Some((indent.len(), indent.len() + body.len()));
        spec.target = Some(at);
    } else if kind < 50 {
        // one byte of a statement turned into a byte no token can contain
        let mut cands: Vec<(usize, usize)> = Vec::new();
        for (i, l) in lines.iter().enumerate() {
            let c = code_part(l);
            let low = c.trim_start().to_ascii_lowercase();
            if low.starts_with("macro") || c.contains('"') {
                continue;
            }
            for (j, b) in c.bytes().enumerate() {
                if !b.is_ascii_whitespace() {
                    cands.push((i, j));
                }
            }
        }
        if cands.is_empty() {
            return None;
        }
        let (i, j) = *r.pick(&cands);
        let nb = *r.pick(&NO_TOKEN_BYTES);
        let mut b = lines[i].clone().into_bytes();
        // start of the token the byte belongs to
        let mut ts = j;
        if is_word_byte(b[j]) {
            while ts > 0 && is_word_byte(b[ts - 1]) {
                ts -= 1;
            }
        } else if ts > 0 && b[j] == b'>' && b[ts - 1] == b'-' {
            ts -= 1;
        } else if ts > 0 && b[j] == b':' && is_word_byte(b[ts - 1]) {
            // `label:` is one token
            ts -= 1;
            while ts > 0 && is_word_byte(b[ts - 1]) {
                ts -= 1;
            }
        } else if ts > 0 && b[j] == b'-' && j + 1 < b.len() && b[j + 1].is_ascii_digit() {
            // negative number
        }
        // a number may carry its sign: `-5`
        if ts > 0 && b[ts - 1] == b'-' {
            ts -= 1;
        }
        b[j] = nb;
        lines[i] = String::from_utf8(b).ok()?;
        spec.kind = "invalid_char".to_owned();
        spec.lines = vec![i + 1];
        let first = lines[i].bytes().position(|c| !c.is_ascii_whitespace()).unwrap_or(0);
        let _ = ts;
        spec.col = Some((first.min(j), j));
        spec.target = Some(i);
    } else if kind < 64 {
        // a line torn off after a comma: the offending token is whatever comes next
        let mut cands = Vec::new();
        for (i, l) in lines.iter().enumerate() {
            let c = code_part(l);
            let low = c.trim_start().to_ascii_lowercase();
            if i <= start_line || low.starts_with("macro") || c.contains('"') || c.contains('(') {
                continue;
            }
            if let Some(p) = c.rfind(',') {
                if !c[p + 1..].trim().is_empty() {
                    cands.push((i, p));
                }
            }
        }
        if cands.is_empty() {
            return None;
        }
        let (i, p) = *r.pick(&cands);
        lines[i] = lines[i][..p + 1].to_owned();
        spec.kind = "torn_line".to_owned();
        // the next line that still has a token, or the end of the file
        let next = (i + 1..lines.len()).find(|k| !code_part(&lines[*k]).trim().is_empty());
        spec.lines = match next {
            Some(k) => vec![k + 1],
            None => (i + 1..=lines.len() + 1).collect(),
        };
        spec.target = Some(i);
    } else if kind < 72 {
        // the file ends inside its last statement
        let mut last = (0..lines.len()).rev().find(|k| !code_part(&lines[*k]).trim().is_empty())?;
        if last <= start_line {
            return None;
        }
        lines.truncate(last + 1);
        {
            // make sure the last statement is one that can be cut after a comma
            let c = code_part(&lines[last]);
            if c.rfind(',').is_none() || c.contains('"') || c.contains('(') {
                let ind = " ".repeat(r.urange(0, 6));
                lines.push(format!("{}{}", ind, r.pick(&["add ax, bx", "mov word [bx, 4], si", "xchg dx, di", "MOV AL, 7"])));
                last += 1;
            }
        }
        let c = code_part(&lines[last]).to_owned();
        let p = c.rfind(',')?;
        lines[last] = c[..p + 1].to_owned();
        final_newline = r.chance(50);
        if r.chance(30) {
            lines.push(String::new());
            lines.push("   ".to_owned());
        }
        spec.kind = "cut_in_last_statement".to_owned();
        spec.lines = (last + 1..=lines.len() + 1).collect();
        spec.target = Some(last);
    } else if kind < 76 {
        // a wrong statement produced by a macro that is itself used inside another macro: the
        // offending token, as far as the source file goes, is the outermost use
        let depth = r.urange(1, 3);
        // (the last two end in the middle of a statement: the expansion runs into its own end)
        let bad = *r.pick(&["mov al, q", "int q", "mov ax, q, q", "add q", "call q", "mov bx,", "add ax, word"]);
        let mut defs = vec![format!("macro zz_e0(q) -> inc si {} <-", bad)];
        for d in 1..depth {
            defs.push(format!("macro zz_e{}(q) -> mov dx, 1 zz_e{}(q) inc di <-", d, d - 1));
        }
        for (k, d) in defs.iter().enumerate() {
            lines.insert(start_line + k, d.clone());
        }
        let start_line = start_line + defs.len();
        let at = r.urange(start_line + 1, lines.len());
        let indent = if r.chance(50) { " ".repeat(r.urange(1, 8)) } else { String::new() };
        let body = format!("zz_e{}(300)", depth - 1);
        lines.insert(at, format!("{}{}", indent, body));
        spec.kind = "error_in_nested_macro".to_owned();
        spec.lines = vec![at + 1];
        spec.col = Some((indent.len(), indent.len() + body.len()));
        spec.target = Some(at);
    } else if kind < 84 {
        // a jump to nowhere that sits in a macro body: the offending token, as far as the source
        // file goes, is the (outermost) use of that macro
        let nested = r.chance(40);
        let mut defs = vec!["macro zz_in() -> inc si jmp zz_nowhere inc di <-".to_owned()];
        if nested {
            defs.push("macro zz_out(q) -> mov dx, q zz_in() <-".to_owned());
        }
        for (k, d) in defs.iter().enumerate() {
            lines.insert(start_line + k, d.clone());
        }
        let start_line = start_line + defs.len();
        let at = r.urange(start_line + 1, lines.len());
        let indent = if r.chance(50) { " ".repeat(r.urange(1, 8)) } else { String::new() };
        let body = if nested { "zz_out(5)".to_owned() } else { "zz_in()".to_owned() };
        lines.insert(at, format!("{}{}", indent, body));
        spec.kind = "undefined_label_in_macro".to_owned();
        spec.lines = vec![at + 1];
        spec.col = Some((indent.len(), indent.len() + body.len()));
        spec.target = Some(at);
    } else if kind < 90 {
        // a jump to a label that is defined nowhere
        let at = r.urange(start_line + 1, lines.len());
        let indent = if r.chance(50) { " ".repeat(r.urange(1, 8)) } else { String::new() };
        let j = *r.pick(&["jmp", "je", "jnz", "loop", "jcxz", "JMP"]);
        let body = format!("{} zz_nowhere", j);
        lines.insert(at, format!("{}{}", indent, body));
        if at + 1 == lines.len() && r.chance(50) {
            final_newline = false;
        }
        spec.kind = "undefined_label".to_owned();
        spec.lines = vec![at + 1];
        // the statement or the label operand
        spec.col = Some((indent.len(), indent.len()));
        let lc = indent.len() + j.len() + 1;
        spec.col2 = Some((lc, lc));
        spec.target = Some(at);
    } else if r.chance(45) && lines.iter().take(start_line).any(|l| data_label_of(l).is_some()) {
        // the same DATA label defined twice, the second time on a line of its own above its
        // directive: either definition may be cited - the label's line, not the directive's
        let cands: Vec<usize> = (0..start_line.min(lines.len())).filter(|i| data_label_of(&lines[*i]).is_some()).collect();
        let i = *r.pick(&cands);
        let name = data_label_of(&lines[i]).unwrap();
        let second_first = r.chance(60);
        let indent = " ".repeat(r.urange(1, 6));
        let dir = *r.pick(&["dw 3", "db 7", "DB [4]", "dw [2, 2]", "db \"xy\""]);
        if second_first {
            // the lone label in front of the existing definition
            lines.insert(i, format!("{}{}", indent, dir));
            lines.insert(i, format!("{}:", name));
            spec.lines = vec![i + 1, i + 3];
            spec.target = Some(i);
        } else {
            lines.insert(i + 1, format!("{}{}", indent, dir));
            lines.insert(i + 1, format!("{}:", name));
            spec.lines = vec![i + 1, i + 2];
            spec.target = Some(i + 1);
        }
        spec.kind = "duplicate_label".to_owned();
    } else {
        // the same code label defined twice: either definition may be cited
        let at = r.urange(start_line + 1, lines.len());
        lines.insert(at, "start:".to_owned());
        spec.kind = "duplicate_label".to_owned();
        spec.lines = vec![start_line + 1, at + 1];
        spec.target = Some(at);
    }
    let text = join(&lines, eol, final_newline);
    let mut scn = Scenario::new(text.as_bytes());
    scn.interpreted = r.chance(30);
    scn.fuel = 1500;
    scn.hash_seed = r.next_u64();
    scn.stdin.bytes = Bytes(b"n\nn\nn\n".to_vec());
    scn.storage_faults = vec![spec.kind.clone()];
    let mut c = Case::new("C16", "diag", seed, run, scn);
    c.config = "faulted".to_owned();
    c.faults = vec![format!("storage_{}", spec.kind)];
    c.diag = Some(spec);
    Some(c)
}

/// the name a line defines as a data label (`name: db ...` / `name: dw ...`), if it does
fn data_label_of(line: &str) -> Option<String> {
    let t = line.trim_start();
    let colon = t.find(':')?;
    let name = &t[..colon];
    if name.is_empty() || !name.chars().all(|c| c == '_' || c.is_ascii_alphanumeric()) || name.chars().next()?.is_ascii_digit() {
        return None;
    }
    let rest = t[colon + 1..].trim_start().to_ascii_lowercase();
    if rest.starts_with("db ") || rest.starts_with("dw ") {
        Some(name.to_owned())
    } else {
        None
    }
}

/// (line, column, text) cited by a diagnostic record, if it is one
#[derive(Debug, PartialEq, Eq)]
pub enum Cited {
    /// a positioned diagnostic
    At { line: usize, col: Option<usize>, text: String },
    /// a syntax diagnostic that carries no position at all
    NoPosition(String),
}

fn parse_usize_prefix(s: &str) -> Option<(usize, &str)> {
    let n = s.bytes().take_while(|b| b.is_ascii_digit()).count();
    if n == 0 {
        return None;
    }
    Some((s[..n].parse().ok()?, &s[n..]))
}

pub fn cited(rec: &str) -> Option<Cited> {
    let first = rec.split('\n').next().unwrap_or("");
    if let Some(rest) = first.strip_prefix("Syntax Error at ").or_else(|| first.strip_prefix("Error at ")) {
        // "<line>:<col> : <text> :"
        let (line, rest) = parse_usize_prefix(rest)?;
        let rest = rest.strip_prefix(':')?;
        let (col, rest) = parse_usize_prefix(rest)?;
        let rest = rest.strip_prefix(" : ").or_else(|| rest.strip_prefix(" :"))?;
        let text = rest.trim_end();
        let text = text.strip_suffix(':').unwrap_or(text);
        return Some(Cited::At { line, col: Some(col), text: text.trim().to_owned() });
    }
    if first.starts_with("Syntax Error") && !first.bytes().any(|b| b.is_ascii_digit()) {
        // a syntax diagnostic whose headline holds no number at all names no line; one that holds
        // numbers in a layout this reader does not know is left alone
        return Some(Cited::NoPosition(rec.chars().take(80).collect()));
    }
    if first.starts_with("Label ") {
        if let Some(p) = first.find(" used but not defined at ") {
            let rest = &first[p + " used but not defined at ".len()..];
            let (line, rest) = parse_usize_prefix(rest)?;
            let rest = rest.trim_start().strip_prefix(':')?;
            let (col, rest) = parse_usize_prefix(rest.trim_start())?;
            let rest = rest.trim_start().strip_prefix(':')?;
            return Some(Cited::At { line, col: Some(col), text: rest.trim().to_owned() });
        }
    }
    None
}

thread_local! {
    static DIRECT: Preprocessor = Preprocessor::new();
}

/// byte offset of the error the assembler reports for this text when called directly
/// (None: it accepts the text, or fails without a location)
fn direct_error_offset(uncommented: &str) -> Option<usize> {
    DIRECT.with(|p| {
        let mut ctx = PreprocessorContext::default();
        let mut out = PreprocessorOutput::default();
        let r = std::panic::catch_unwind(std::panic::AssertUnwindSafe(|| match p.parse(&mut ctx, &mut out, uncommented) {
            Ok(_) => None,
            Err(ParseError::InvalidToken { location }) => Some(location),
            Err(ParseError::UnrecognizedEOF { location, .. }) => Some(location),
            Err(ParseError::UnrecognizedToken { token: (s, _, _), .. }) => Some(s),
            Err(ParseError::ExtraToken { token: (s, _, _) }) => Some(s),
            Err(ParseError::User { .. }) => None,
        }));
        r.ok().flatten()
    })
}

pub fn judge(case: &Case, ex: &Exec) -> Vec<Violation> {
    let mut v = Vec::new();
    let spec = match &case.diag {
        Some(s) => s,
        None => return v,
    };
    let h = &ex.h;
    if h.panic().is_some() {
        return v; // an abort is C15's to report
    }
    // the diagnostic: first record of the driver before any instruction ran
    let mut found = None;
    for e in &h.events {
        match e {
            Event::Probe { .. } => break,
            Event::Rec { origin: Origin::RunLoop, text, .. } => {
                if let Some(c) = cited(text) {
                    found = Some(c);
                    break;
                }
            }
            _ => {}
        }
    }
    let c = match found {
        Some(c) => c,
        None => {
            // accepted, or reported without our format: not this clause's business - unless the
            // misused name was let through to the run and the run then stops at that very statement
            // with a report: that report is the diagnostic, and it has to name the line
            if spec.kind == "name_misused" {
                let (_, segs) = crate::oracle::segments(h);
                if let Some(s) = segs.last() {
                    let stopped_here = !s.followed && s.code.contains("zz_") && matches!(h.ended(), Some(Event::Exit(_)) | Some(Event::Return));
                    let reports: Vec<&String> = s
                        .events
                        .iter()
                        .filter_map(|e| match e {
                            Event::Rec { origin: Origin::RunLoop, text, .. } if !text.trim().is_empty() => Some(text),
                            _ => None,
                        })
                        .collect();
                    if stopped_here && !reports.is_empty() {
                        let all: String = reports.iter().map(|t| t.as_str()).collect::<Vec<_>>().join("");
                        let cites: Vec<u64> = all.split('\n').filter_map(crate::oracle::cited_line).collect();
                        let want = spec.lines.first().cloned().unwrap_or(0) as u64;
                        if !cites.contains(&want) {
                            v.push(Violation::new(
                                if cites.is_empty() { format!("C16:diag_no_position{{{}}}", spec.kind) } else { format!("C16:diag_wrong_line{{{}}}", spec.kind) },
                                format!(
                                    "the misused name on line {} was let through to the run, which then stopped at that statement ({}) with a report that does not name the line: {:?}",
                                    want, s.code, all.chars().take(160).collect::<String>()
                                ),
                            ));
                        }
                    }
                }
            }
            return v;
        }
    };
    let src = String::from_utf8_lossy(&case.scn.source.0).into_owned();
    let src_lines: Vec<&str> = src.split('\n').collect();
    let (line, col, text) = match c {
        Cited::NoPosition(t) => {
            v.push(Violation::new(
                format!("C16:diag_no_position{{{}}}", spec.kind),
                format!("the diagnostic names no line, column or text: {:?}", t),
            ));
            return v;
        }
        Cited::At { line, col, text } => (line, col, text),
    };
    // (O2) the quoted text is the text of the cited line
    let actual = src_lines.get(line.wrapping_sub(1)).map(|l| shown_text(l.trim_end_matches('\r')));
    match &actual {
        None => v.push(Violation::new(
            format!("C16:diag_wrong_line{{{}}}", spec.kind),
            format!("the diagnostic cites line {} but the file has {} lines", line, src_lines.len()),
        )),
        Some(a) => {
            if *a != text {
                v.push(Violation::new(
                    format!("C16:diag_text_mismatch{{{}}}", spec.kind),
                    format!("the diagnostic cites line {} and shows {:?}, but line {} of the file reads {:?}", line, text, line, a),
                ));
            }
        }
    }
    // (O1) the cited line is where the fault was injected
    if !spec.lines.is_empty() && !spec.lines.contains(&line) {
        v.push(Violation::new(
            format!("C16:diag_wrong_line{{{}}}", spec.kind),
            format!("the diagnostic cites line {} ({:?}); the offending token is on line {:?}", line, text, spec.lines),
        ));
    } else if let (Some((lo, hi)), Some(cc)) = (spec.col, col) {
        let in2 = spec.col2.map(|(a, b)| cc >= a && cc <= b + 1).unwrap_or(false);
        if spec.lines.len() == 1 && (cc < lo || cc > hi + 1) && !in2 {
            v.push(Violation::new(
                format!("C16:diag_wrong_col{{{}}}", spec.kind),
                format!("the diagnostic cites column {} of line {} ({:?}); the offending token lies in columns {}..={}", cc, line, text, lo, hi),
            ));
        }
    }
    // (O3) independent offset -> (line, column) computation on the assembler's own error location
    if !spec.kind.starts_with("undefined_label") {
        let re = regex::Regex::new(r";.*\n?").unwrap();
        let unc = re.replace_all(&src, "\n").to_string();
        if let Some(off) = direct_error_offset(&unc) {
            let off = off.min(unc.len());
            let before = &unc.as_bytes()[..off];
            let want_line = before.iter().filter(|b| **b == b'\n').count() + 1;
            let lstart = before.iter().rposition(|b| *b == b'\n').map(|p| p + 1).unwrap_or(0);
            let want_col = off - lstart;
            // end of input: any line from the last token to the end of the file is a fair answer
            let at_eof = unc[off..].trim().is_empty();
            let ok_line = if at_eof {
                let last_tok = unc[..off].trim_end();
                let lo = last_tok.bytes().filter(|b| *b == b'\n').count() + 1;
                line >= lo && line <= want_line.max(lo)
            } else {
                line == want_line
            };
            if !ok_line {
                v.push(Violation::new(
                    format!("C16:diag_wrong_line{{{}}}", spec.kind),
                    format!("the assembler reports the error at byte {} = line {}, the diagnostic cites line {}", off, want_line, line),
                ));
            } else if let Some(cc) = col {
                let ascii = unc[lstart..].split('\n').next().map(|l| l.is_ascii()).unwrap_or(true);
                if !at_eof && ascii && line == want_line && cc != want_col && cc != want_col + 1 {
                    v.push(Violation::new(
                        format!("C16:diag_wrong_col{{{}}}", spec.kind),
                        format!("the assembler reports the error at column {} of line {}, the diagnostic cites column {}", want_col, line, cc),
                    ));
                }
            }
        }
    }
    v
}

/// Minimiser support: drop lines other than the one carrying the fault, keeping the spec's line
/// numbers in step. Returns None when `keep` removes the target.
pub fn rebuild(case: &Case, keep: &[usize]) -> Option<Case> {
    let spec = case.diag.as_ref()?;
    let target = spec.target?;
    if !keep.contains(&target) {
        return None;
    }
    let src = String::from_utf8_lossy(&case.scn.source.0).into_owned();
    let crlf = src.contains("\r\n");
    let final_newline = src.ends_with('\n');
    let mut lines: Vec<&str> = src.split('\n').collect();
    if final_newline {
        lines.pop();
    }
    let kept: Vec<String> = keep.iter().filter_map(|i| lines.get(*i).map(|l| l.trim_end_matches('\r').to_owned())).collect();
    let map = |old: usize| -> Option<usize> { keep.iter().position(|k| *k == old) };
    let mut ns = spec.clone();
    ns.target = map(target);
    // lines are cited 1-based; a cited line that was dropped makes the candidate useless
    let mut nl = Vec::new();
    for l in &spec.lines {
        match map(l - 1) {
            Some(k) => nl.push(k + 1),
            None => {
                if spec.lines.len() == 1 {
                    return None;
                }
            }
        }
    }
    if nl.is_empty() && !spec.lines.is_empty() {
        return None;
    }
    // kinds whose expectation is a range up to the end of the file are not re-derived: keep as is
    if spec.kind == "torn_line" || spec.kind == "cut_in_last_statement" {
        return None;
    }
    ns.lines = nl;
    let mut c = case.clone();
    c.scn.source = Bytes(join(&kept, if crlf { "\r\n" } else { "\n" }, final_newline).into_bytes());
    c.diag = Some(ns);
    Some(c)
}
