//! Routes a property to its case generator / executor / oracle, and holds the descriptive
//! texts that go into the evidence files.
use crate::case::*;
use crate::runner::{self, Exec, Stats};

pub fn make_case(prop: &str, seed: u64, run: u64, stats: &mut Stats) -> Option<Case> {
    match prop {
        "C16" | "C17" | "C18" | "C20" => runner::make_case(prop, seed, run, stats),
        "C19" => crate::c19::make_case(seed, run, stats),
        "C15" => crate::c15::make_case(seed, run, thorough(), stats),
        _ => None,
    }
}

pub fn thorough() -> bool {
    std::env::var("VERIF_TIER").map(|t| t == "thorough").unwrap_or(false)
}

pub fn execute(case: &Case) -> Exec {
    runner::execute(case)
}

pub fn judge(case: &Case, ex: &Exec) -> Result<Vec<Violation>, String> {
    runner::judge(case, ex)
}

pub fn minimise(case: &Case, class: &str) -> Case {
    runner::minimise(case, class)
}

pub fn expected_rare(prop: &str) -> Vec<&'static str> {
    match prop {
        "C20" => vec![
            "eof_at_prompt",
            "eof_at_prompt_inside_rep",
            "eof_mid_line",
            "invalid_utf8_at_prompt",
            "read_error_at_prompt",
            "tf_set_by_popf",
            "tf_cleared_midrun",
            "int3_under_interpreted",
            "prompt_before_ret",
            "quit",
            "quit_uppercase",
            "print_at_prompt",
            "garbage_at_prompt",
        ],
        "C17" => vec!["print_at_prompt", "eof_at_prompt"],
        "C18" => vec!["service_read_at_eof", "service_line_without_newline", "service_read_error"],
        _ => vec![],
    }
}

pub fn rule(prop: &str) -> String {
    let common = "one evaluation = one execution of the real CLI pipeline (comment regex, Preprocessor, label check, DataParser, run loop, Interpreter, prompt, printer, interrupt services) under the simulated console; every choice (program, spelling, stdin script, delivery plan, faults, hash seed, knobs) is drawn from xoshiro256** seeded by splitmix64(VERIF_SEED, property, run index) at generation time, execution is a pure function of the resulting case file. distinct_nontrivial = number of distinct history shapes (sequence of event kind / origin / instruction class / fault kind, payloads erased; FNV-1a) among executions that performed at least one console read (prompt or service) or met a stdin fault.";
    format!("{} property {}", common, prop)
}

pub fn real_vs_stub() -> serde_json::Value {
    serde_json::json!({
        "real": ["Preprocessor", "DataParser", "Interpreter", "PrintParser (generated from the tree's print.lalrpop)", "CMDDriver::run", "preprocess", "get_err_pos", "user_interface", "int_13", "int_21", "LexerHelper", "SourceMapper", "both context structs", "std BufReader::read_line / LineWriter / write_all / UTF-8 validation"],
        "stub": ["raw descriptors 0 and 1 (SimStdin / SimStdout)", "process::exit (unwind with a private payload)", "RandomState (seeded SimBuildHasher)", "fs::read_to_string (String::from_utf8)", "main / clap argument handling (the blank line main prints is emitted by the stub)"]
    })
}

pub fn assumptions(prop: &str) -> Vec<String> {
    let mut v = assumptions_common();
    if !crate::multi::print_reader_direct() && (prop == "C15" || prop == "C19") {
        v.push("the print reader of this tree is not of the shape (machine, text) -> prints: strings are not handed to it directly in this build (C15 part 'strings given directly to the print reader', C19 layer (c) for the print reader); it is still exercised through print statements and prompt commands".to_owned());
    }
    if !cfg!(driver_int_fns) && prop == "C19" {
        v.push("the console services of this tree are not int_13(&VM, u8) / int_21(&mut VM, u8): the library-level machines of C19 (b, c) skip the services on both sides of their comparisons".to_owned());
    }
    v
}

fn assumptions_common() -> Vec<String> {
    vec![
        "sampling, not enumeration: a clean batch is evidence, not proof".to_owned(),
        "the guarded seams (cfg emu8086_verif) do not change behaviour: checked by comparing the guard-on and guard-off binaries on piped sessions".to_owned(),
        "the harness is built with overflow checks and debug assertions on, like the dev/test profile; a release build that wraps instead of panicking is not covered".to_owned(),
        "hard stdout failure (EPIPE/ENOSPC) and allocation failure are not injected".to_owned(),
    ]
}
