//! Looks at the driver sources the harness is built against and tells the harness which internal
//! entry points it may call directly (a harmless rename in the driver must not break the build).
use std::fs;

const REPO: &str = "/repo";

fn main() {
    println!("cargo:rustc-check-cfg=cfg(driver_int_fns)");
    let path = format!("{}/src/driver/interrupts.rs", REPO);
    println!("cargo:rerun-if-changed={}", path);
    let text = fs::read_to_string(&path).unwrap_or_default();
    let squeeze = |s: &str| s.chars().filter(|c| !c.is_whitespace()).collect::<String>();
    let t = squeeze(&text);
    if t.contains(&squeeze("pub fn int_13(vm: &VM, ah: u8)")) && t.contains(&squeeze("pub fn int_21(vm: &mut VM, ah: u8)")) {
        println!("cargo:rustc-cfg=driver_int_fns");
    }
    // the print reader: handed the machine and the text, it prints (today's shape). A reader of
    // another shape (one that returns a command for someone else to show) cannot be called with
    // strings directly; the harness then leaves those direct calls out and says so in the evidence
    println!("cargo:rustc-check-cfg=cfg(print_reader_takes_vm)");
    let path = format!("{}/src/driver/print.lalrpop", REPO);
    println!("cargo:rerun-if-changed={}", path);
    let g = squeeze(&fs::read_to_string(&path).unwrap_or_default());
    if g.contains("grammar<'s>(vm:&VM);") || g.contains("grammar(vm:&VM);") {
        println!("cargo:rustc-cfg=print_reader_takes_vm");
    }
}
