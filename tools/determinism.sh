#!/bin/sh
# Determinism protocol (DESIGN.md §8): the same seeds at worker counts 1, 4 and 16 must give
# identical per-run digests (case + histories + verdicts).   tools/determinism.sh [runs] [props...]
RUNS=${1:-600}; shift
PROPS=${*:-C15 C16 C17 C18 C19 C20}
cd /verif || exit 2
rc=0
for p in $PROPS; do
  for w in 1 4 16; do
    SIMCTL_DIGESTS=/tmp/digests-$p-$w.txt ./check $p --runs $RUNS --workers $w >/tmp/determinism-$p-$w.log 2>&1
  done
  if cmp -s /tmp/digests-$p-1.txt /tmp/digests-$p-4.txt && cmp -s /tmp/digests-$p-1.txt /tmp/digests-$p-16.txt; then
    echo "$p: $(wc -l < /tmp/digests-$p-1.txt) runs, digests identical at 1/4/16 workers"
  else
    echo "$p: DIGEST MISMATCH"; rc=2
  fi
  rm -f /tmp/digests-$p-*.txt /tmp/determinism-$p-*.log
done
exit $rc
