#!/bin/bash
# Development helper: the whole corpus once more against the current machinery.
#   every /verif/seeded/<id> must be caught (exit 1) by the check of its property,
#   every /verif/benign/<id> must leave all six checks quiet (exit 0).
# Runs in <n> scratch slots in parallel (default 4); writes /verif/seeded/REGRESSION.md
N=${1:-4}
export VERIF_SNAPSHOT=$(git -C /verif rev-parse HEAD)
OUT=/tmp/regress-$$; mkdir -p $OUT
ls -d /verif/seeded/*/ | xargs -n1 basename > $OUT/seeds.txt
ls -d /verif/benign/*/ | xargs -n1 basename > $OUT/benign.txt
seeds_part() {
  slot=$1; k=$2
  i=0
  while read id; do
    if [ $((i % N)) -eq $k ]; then
      # results of an interrupted earlier run against the same snapshot may be handed in
      if [ -n "$REGRESS_PREV" ] && grep -q "^seed $id .*exit=1" "$REGRESS_PREV"; then
        grep "^seed $id " "$REGRESS_PREV" | head -1 >> $OUT/res-$k.txt; i=$((i+1)); continue
      fi
      prop=$(python3 -c "import json;print(json.load(open('/verif/seeded/$id/meta.json'))['property'])")
      tier=quick; [ "$id" = "C15d-m2" ] && tier=thorough
      r=$(VERIF_TIER=$tier /verif/tools/benigncheck.sh /verif/seeded/$id $slot $prop 2>&1 | grep "^sc-\|BUILD\|PATCH" | tr '\n' ' ' | cut -c1-200)
      echo "seed $id $prop | $r" >> $OUT/res-$k.txt
    fi
    i=$((i+1))
  done < $OUT/seeds.txt
}
benign_part() {
  slot=$1; k=$2
  i=0
  while read id; do
    if [ $((i % N)) -eq $k ]; then
      r=$(/verif/tools/benigncheck.sh /verif/benign/$id $slot 2>&1 | grep "^sc-\|BUILD\|PATCH" | sed 's/^sc-[a-z0-9]* //' | tr '\n' ' ' | cut -c1-300)
      echo "benign $id | $r" >> $OUT/res-$k.txt
    fi
    i=$((i+1))
  done < $OUT/benign.txt
}
# the harmless changes first (an alarm there is the more serious failure), then the seeded ones
worker() { benign_part $1 $2; seeds_part $1 $2; }
for k in $(seq 0 $((N-1))); do worker r$k $k & done
wait
{
  echo "# Regression of the corpus against the machinery at /verif commit $(echo $VERIF_SNAPSHOT | cut -c1-7), /repo $(git -C /repo rev-parse --short HEAD)"
  echo
  echo "seeded changes caught (exit=1 for the property's check): $(cat $OUT/res-*.txt | grep '^seed' | grep -c 'exit=1')/$(wc -l < $OUT/seeds.txt)"
  echo "harmless changes quiet (six times exit=0): $(cat $OUT/res-*.txt | grep '^benign' | grep -v 'exit=[12]' | grep -c 'exit=0')/$(wc -l < $OUT/benign.txt)"
  echo
  echo '```'
  cat $OUT/res-*.txt | sort
  echo '```'
} > /verif/seeded/REGRESSION.md
for k in $(seq 0 $((N-1))); do git -C /repo worktree remove --force /tmp/sc-r$k 2>/dev/null; rm -rf /tmp/simcopy-sc-r$k; done
rm -rf $OUT
