#!/bin/sh
# C19 layer (d), thorough tier only: two preemptively scheduled threads over ONE shared
# Interpreter and DataParser under Miri's seeded scheduler (sim/miri_threads).
#   tools/miri_threads.sh <sim dir> <n seeds> <time limit s> <result.json>
# Result: {"status": "ok" | "violation" | "timeout" | "unavailable", "seeds": n, "wall_s": t, "log": path}
# A timeout is "no verdict" (building one Interpreter under Miri takes minutes), never a pass or a fail.
SIM="$1"; N="${2:-2}"; LIMIT="${3:-2400}"; OUT="$4"
LOG="$SIM/target/miri_threads.log"
mkdir -p "$SIM/target"
t0=$(date +%s)
if ! cargo +nightly miri --version >/dev/null 2>&1; then
  echo "{\"status\":\"unavailable\",\"seeds\":0,\"wall_s\":0,\"log\":\"$LOG\"}" > "$OUT"; exit 0
fi
( cd "$SIM/miri_threads" && CARGO_NET_OFFLINE=true RUSTFLAGS= \
  MIRIFLAGS="-Zmiri-many-seeds=0..$N -Zmiri-preemption-rate=0.1" \
  timeout "$LIMIT" cargo +nightly miri run --offline ) > "$LOG" 2>&1
rc=$?
t1=$(date +%s)
if [ $rc -eq 0 ] && grep -q "MIRI-THREADS-OK" "$LOG"; then st=ok
elif [ $rc -eq 124 ]; then st=timeout
else st=violation; fi
echo "{\"status\":\"$st\",\"seeds\":$N,\"wall_s\":$((t1-t0)),\"log\":\"$LOG\"}" > "$OUT"
exit 0
