#!/bin/sh
# Development helper (not a registered check): run checks against a scratch copy / worktree of
# the repository without touching /repo, by building a shadow copy of the harness whose
# "/repo" paths point at the given tree.
#   tools/mutcheck.sh <tree> <name> <PROP> [<PROP> ...] [-- extra simctl args]
# Prints one line per property: "<name> <PROP> exit=<code> <violation classes>"
TREE="$1"; NAME="$2"; shift 2
PROPS=""; EXTRA=""
while [ $# -gt 0 ]; do
  if [ "$1" = "--" ]; then shift; EXTRA="$*"; break; fi
  PROPS="$PROPS $1"; shift
done
W=/tmp/simcopy-$NAME
mkdir -p $W/home
if [ -n "$VERIF_SNAPSHOT" ]; then
  # a pinned commit of /verif instead of its working tree (long campaigns while editing goes on)
  rm -rf $W/snap; mkdir -p $W/snap
  git -C /verif archive "$VERIF_SNAPSHOT" sim known_findings.txt | tar -x -C $W/snap
  rsync -a --delete --exclude target --exclude build.log $W/snap/sim/ $W/sim/
  cp $W/snap/known_findings.txt $W/home/ 2>/dev/null
else
  rsync -a --delete --exclude target --exclude build.log /verif/sim/ $W/sim/
fi
sed -i "s|/repo|$TREE|g" $W/sim/Cargo.toml $W/sim/src/main.rs $W/sim/src/c15.rs $W/sim/miri_threads/Cargo.toml $W/sim/build.rs
[ -f $TREE/Cargo.lock ] || cp /repo/Cargo.lock $TREE/Cargo.lock
cp /verif/known_findings.txt $W/home/
export SIMCTL_HOME=$W/home CARGO_NET_OFFLINE=true RUSTFLAGS="--cfg emu8086_verif"
# the scratch tree's own guard-off binary, if it has been built: confirms violations, runs the fidelity sweep
[ -x $TREE/target/debug/emulator_8086 ] && export SIMCTL_REAL_BIN=$TREE/target/debug/emulator_8086
# share the heavy dependency build with nothing: own target dir, removed by the caller when done
( cd $W/sim && cargo build --release --offline >$W/build.log 2>&1 ) || { echo "$NAME BUILD-FAILED"; tail -20 $W/build.log; exit 2; }
for p in $PROPS; do
  ( cd $W/home && $W/sim/target/release/simctl check $p $EXTRA > $W/out-$p.txt 2>&1 ); code=$?
  cls=$(grep -a "^violation class=" $W/out-$p.txt | sed 's/^violation class=//; s/ first_run.*//' | tr '\n' ' ' | cut -c1-400)
  echo "$NAME $p exit=$code $cls"
done
