#!/bin/bash
# Development helper (not a registered check): confirm a seeded change delivered by a sub-agent
# and run the checks against it, all in a scratch worktree of /repo (never in /repo itself).
#   tools/seedconfirm.sh <dir with patch.diff + demo.sh> <slot> <PROP> [<PROP>...] [-- simctl args]
# <slot> names the scratch tree /tmp/sc-<slot> (kept between calls for incremental builds; remove
# it with: git -C /repo worktree remove --force /tmp/sc-<slot>; rm -rf /tmp/simcopy-sc-<slot>).
# Prints: clean-demo, tests-with-change, demo-with-change, then one line per property.
D="$1"; SLOT="$2"; shift 2
T=/tmp/sc-$SLOT
export CARGO_NET_OFFLINE=true
if [ ! -d "$T" ]; then
  git -C /repo worktree add -q --detach "$T" HEAD || exit 2
  cp /repo/Cargo.lock "$T"/
fi
git -C "$T" reset -q --hard ; git -C "$T" clean -fdq -e target -e Cargo.lock
git -C "$T" checkout -q --detach "$(git -C /repo rev-parse HEAD)" 2>/dev/null
( cd "$T" && cargo build --offline >/dev/null 2>&1 ) || { echo "CLEAN-BUILD-FAILED"; exit 2; }
( cd "$D" && timeout 600 bash ./demo.sh "$T" >/tmp/sc-$SLOT.demo-clean.log 2>&1 ); echo "clean-demo exit=$? (want 0)"
git -C "$T" reset -q --hard ; git -C "$T" clean -fdq -e target -e Cargo.lock
git -C "$T" apply --index "$D/patch.diff" || { echo "PATCH-DOES-NOT-APPLY"; exit 2; }
( cd "$T" && cargo test --workspace --no-fail-fast --offline 2>&1 | grep -E "^test result|FAILED|failed" | head -5 )
( cd "$T" && cargo build --offline >/dev/null 2>&1 ) || { echo "CHANGED-BUILD-FAILED"; exit 2; }
( cd "$D" && timeout 600 bash ./demo.sh "$T" >/tmp/sc-$SLOT.demo-changed.log 2>&1 ); echo "changed-demo exit=$? (want non-zero)"
git -C "$T" clean -fdq -e target -e Cargo.lock
if [ $# -gt 0 ]; then
  /verif/tools/mutcheck.sh "$T" "sc-$SLOT" "$@"
fi
