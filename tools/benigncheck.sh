#!/bin/bash
# Development helper (not a registered check): a change that keeps the properties true must leave
# every check quiet. Applies <dir>/patch.diff to a scratch worktree of /repo and runs the checks.
#   tools/benigncheck.sh <dir with patch.diff> <slot> [<PROP>...]     (default: all six)
D="$1"; SLOT="$2"; shift 2
PROPS="${*:-C15 C16 C17 C18 C19 C20}"
T=/tmp/sc-$SLOT
export CARGO_NET_OFFLINE=true
if [ ! -d "$T" ]; then
  git -C /repo worktree add -q --detach "$T" HEAD || exit 2
  cp /repo/Cargo.lock "$T"/
fi
git -C "$T" reset -q --hard ; git -C "$T" clean -fdq -e target -e Cargo.lock
git -C "$T" checkout -q --detach "$(git -C /repo rev-parse HEAD)" 2>/dev/null
git -C "$T" apply --index "$D/patch.diff" || { echo "PATCH-DOES-NOT-APPLY"; exit 2; }
( cd "$T" && cargo test --workspace --no-fail-fast --offline 2>&1 | grep -E "^test result: .* [1-9][0-9]* passed|FAILED|failed" | head -3 )
( cd "$T" && cargo build --offline >/dev/null 2>&1 ) || { echo "CHANGED-BUILD-FAILED"; exit 2; }
/verif/tools/mutcheck.sh "$T" "sc-$SLOT" $PROPS
