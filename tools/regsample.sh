#!/bin/bash
# Development helper (not a registered check): run a list of corpus entries against the current
# machinery in one scratch worktree of /repo (removed at the end).
#   REG_OUT=<file> tools/regsample.sh <slot> s:<seeded id>:<PROP> b:<benign id>:<PROP,PROP,...> ...
# reg.sh <slot> <kind:id:PROPS> ...   kind = s (seeded: own property) | b (benign: all six)
slot=$1; shift
T=/tmp/sc-$slot
git -C /repo worktree add -q --detach $T HEAD; cp /repo/Cargo.lock $T/ 2>/dev/null
for x in "$@"; do
  kind=${x%%:*}; r=${x#*:}; id=${r%%:*}; props=${r#*:}
  dir=/verif/seeded/$id; [ $kind = b ] && dir=/verif/benign/$id
  git -C $T reset -q --hard; git -C $T clean -fdq -e target -e Cargo.lock
  git -C $T apply $dir/patch.diff || { echo "$id NOAPPLY" >> ${REG_OUT:-/tmp/reg-results.txt}; continue; }
  ( cd $T && CARGO_NET_OFFLINE=true cargo build --offline >/dev/null 2>&1 )
  /verif/tools/mutcheck.sh $T sc-$slot ${props//,/ } >> ${REG_OUT:-/tmp/reg-results.txt} 2>&1
done
git -C /repo worktree remove --force $T; rm -rf /tmp/simcopy-sc-$slot
echo "slot $slot finished" >> ${REG_OUT:-/tmp/reg-results.txt}
